//! Coverage-guided target for C01/C02/C03: the input bytes are a tape (4 bytes per word) decoded
//! by the kind-directed program generator; the oracles of C01 (back end finishes), C02 (reference
//! semantics) and C03 (structural validity) run inside the target.
#![no_main]
use libfuzzer_sys::fuzz_target;
use oalverif::fuzzing::*;

fuzz_target!(|data: &[u8]| {
    init();
    typed_oracle(data);
});
