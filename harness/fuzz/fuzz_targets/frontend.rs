//! Coverage-guided target for C04 and C11: arbitrary bytes as a source text.
//! The semantic oracles are inside the target (C04: parse and the playground entry point return and
//! yield exactly one of document / error; C11: tiling, re-lex, leaves, hulls, span bounds).
//! Failures whose signature matches an open known finding are tolerated so that a campaign does not
//! end on the first rediscovery.
#![no_main]
use libfuzzer_sys::fuzz_target;
use oalverif::fuzzing::*;

fuzz_target!(|data: &[u8]| {
    init();
    let text = String::from_utf8_lossy(data);
    frontend_oracle(&text);
});
