//! Coverage-guided target for C07(a): the input bytes are a tape decoded into a system of tag
//! equations; the differential oracle against the reference unifier runs inside the target.
#![no_main]
use libfuzzer_sys::fuzz_target;
use oalverif::fuzzing::*;

fuzz_target!(|data: &[u8]| {
    init();
    unify_oracle(data);
});
