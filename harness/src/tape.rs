//! The tape: the single source of choices for every generator in the harness.
//!
//! A tape is a finite sequence of `u32` words. `choose(n)` maps the next word `w`
//! monotonically to `(w * n) >> 32`, so that a numerically smaller word selects an
//! earlier alternative; an exhausted tape answers 0. Generators order alternatives
//! simplest-first, hence the all-zero (or empty) tape is the smallest case.

use proptest::strategy::{Strategy, ValueTree};
use proptest::test_runner::{Config, RngAlgorithm, TestRng, TestRunner};

#[derive(Clone, Debug)]
pub struct Tape {
    words: Vec<u32>,
    pos: usize,
}

impl Tape {
    pub fn new(words: Vec<u32>) -> Self {
        Tape { words, pos: 0 }
    }

    pub fn words(&self) -> &[u32] {
        &self.words
    }

    /// The number of words consumed so far.
    pub fn consumed(&self) -> usize {
        self.pos
    }

    pub fn raw(&mut self) -> u32 {
        let w = self.words.get(self.pos).copied().unwrap_or(0);
        self.pos += 1;
        w
    }

    /// A choice in `0..n` (0 if `n` is 0 or 1).
    pub fn choose(&mut self, n: usize) -> usize {
        if n <= 1 {
            // Still consume a word so that the tape structure does not depend on `n`.
            self.raw();
            return 0;
        }
        ((self.raw() as u64 * n as u64) >> 32) as usize
    }

    /// A choice in `lo..=hi`.
    pub fn range(&mut self, lo: usize, hi: usize) -> usize {
        debug_assert!(lo <= hi);
        lo + self.choose(hi - lo + 1)
    }

    /// True with probability `num/den`; false is the simpler alternative.
    pub fn chance(&mut self, num: u32, den: u32) -> bool {
        // Small words must give `false`.
        let w = self.raw() as u64;
        w >= ((den - num) as u64 * (1u64 << 32)) / den as u64
    }

    /// A weighted choice: returns the index of the chosen weight.
    pub fn weighted(&mut self, weights: &[u32]) -> usize {
        let total: u64 = weights.iter().map(|w| *w as u64).sum();
        if total == 0 {
            self.raw();
            return 0;
        }
        let mut x = (self.raw() as u64 * total) >> 32;
        for (i, w) in weights.iter().enumerate() {
            if x < *w as u64 {
                return i;
            }
            x -= *w as u64;
        }
        weights.len() - 1
    }

    pub fn pick<T: Copy>(&mut self, items: &[T]) -> T {
        items[self.choose(items.len())]
    }

    pub fn pick_ref<'a, T>(&mut self, items: &'a [T]) -> &'a T {
        &items[self.choose(items.len())]
    }

    /// A size biased towards small values: geometric-ish in `0..=max`.
    pub fn small(&mut self, max: usize) -> usize {
        let w = self.raw() as u64;
        // Square the unit value to bias towards zero, keeps monotonicity.
        let u = (w * w) >> 32;
        ((u * (max as u64 + 1)) >> 32) as usize
    }
}

/// A deterministic tape source: case `index` of run `seed` always gets the same tape,
/// independently of how the cases are sharded over workers.
pub struct TapeSource {
    seed: u64,
    max_len: usize,
}

fn mix(mut x: u64) -> u64 {
    // splitmix64 finalizer
    x = x.wrapping_add(0x9E3779B97F4A7C15);
    x = (x ^ (x >> 30)).wrapping_mul(0xBF58476D1CE4E5B9);
    x = (x ^ (x >> 27)).wrapping_mul(0x94D049BB133111EB);
    x ^ (x >> 31)
}

impl TapeSource {
    pub fn new(seed: u64, max_len: usize) -> Self {
        TapeSource { seed, max_len }
    }

    /// Generates the tape of case `index` with proptest's own generators and RNG.
    pub fn tape(&self, index: u64) -> Vec<u32> {
        let mut bytes = [0u8; 32];
        let a = mix(self.seed ^ 0xA5A5_5A5A_1234_5678);
        let b = mix(index ^ a);
        let c = mix(a ^ b.rotate_left(17));
        let d = mix(b ^ c.rotate_left(29));
        bytes[0..8].copy_from_slice(&a.to_le_bytes());
        bytes[8..16].copy_from_slice(&b.to_le_bytes());
        bytes[16..24].copy_from_slice(&c.to_le_bytes());
        bytes[24..32].copy_from_slice(&d.to_le_bytes());
        let rng = TestRng::from_seed(RngAlgorithm::ChaCha, &bytes);
        let config = Config {
            failure_persistence: None,
            ..Config::default()
        };
        let mut runner = TestRunner::new_with_rng(config, rng);
        // Words are a mix of uniform values and small values, so that both "any alternative"
        // and "one of the first alternatives" are likely at every choice point.
        let word = proptest::prop_oneof![
            6 => proptest::num::u32::ANY,
            1 => 0u32..0x2000_0000u32,
            1 => proptest::strategy::Just(0u32),
        ];
        let strat = proptest::collection::vec(word, self.max_len..=self.max_len);
        strat
            .new_tree(&mut runner)
            .expect("tape strategy cannot fail")
            .current()
    }
}

/// Shrinks a failing tape.
///
/// `still_fails(tape)` must return true iff the candidate reproduces the *same* failure.
/// The passes are the classic ones for choice sequences: truncate, delete blocks, zero blocks,
/// lower single words (binary search). The budget bounds the number of oracle calls.
pub fn shrink<F: FnMut(&[u32]) -> bool>(start: &[u32], mut still_fails: F, budget: usize) -> Vec<u32> {
    let mut best: Vec<u32> = start.to_vec();
    let mut calls = 0usize;
    let mut try_candidate = |cand: &[u32], best: &mut Vec<u32>, calls: &mut usize| -> bool {
        if *calls >= budget {
            return false;
        }
        *calls += 1;
        if still_fails(cand) {
            *best = cand.to_vec();
            true
        } else {
            false
        }
    };

    // Drop trailing zeros: an exhausted tape answers zero anyway.
    while best.last() == Some(&0) {
        best.pop();
    }

    let mut improved = true;
    while improved && calls < budget {
        improved = false;

        // Pass 1: truncate (binary search on the length).
        let mut lo = 0usize;
        let mut hi = best.len();
        while lo < hi && calls < budget {
            let mid = (lo + hi) / 2;
            let cand = best[..mid].to_vec();
            if try_candidate(&cand, &mut best, &mut calls) {
                hi = mid;
                improved = true;
            } else {
                lo = mid + 1;
            }
        }

        // Pass 2: delete blocks of decreasing size.
        let mut size = (best.len() / 2).max(1);
        loop {
            let mut i = 0;
            while i + size <= best.len() && calls < budget {
                let mut cand = best.clone();
                cand.drain(i..i + size);
                if try_candidate(&cand, &mut best, &mut calls) {
                    improved = true;
                } else {
                    i += size;
                }
            }
            if size == 1 {
                break;
            }
            size /= 2;
        }

        // Pass 3: zero blocks of decreasing size.
        let mut size = (best.len() / 2).max(1);
        loop {
            let mut i = 0;
            while i + size <= best.len() && calls < budget {
                if best[i..i + size].iter().any(|w| *w != 0) {
                    let mut cand = best.clone();
                    for w in &mut cand[i..i + size] {
                        *w = 0;
                    }
                    if try_candidate(&cand, &mut best, &mut calls) {
                        improved = true;
                    }
                }
                i += size;
            }
            if size == 1 {
                break;
            }
            size /= 2;
        }

        // Pass 4: lower single words by binary search.
        for i in 0..best.len() {
            if calls >= budget {
                break;
            }
            if best[i] == 0 {
                continue;
            }
            let mut lo = 0u64;
            let mut hi = best[i] as u64;
            // Invariant: `hi` fails.
            while lo < hi && calls < budget {
                let mid = (lo + hi) / 2;
                let mut cand = best.clone();
                cand[i] = mid as u32;
                if try_candidate(&cand, &mut best, &mut calls) {
                    hi = mid;
                    improved = true;
                } else {
                    lo = mid + 1;
                }
            }
        }

        while best.last() == Some(&0) {
            best.pop();
        }
    }
    best
}

#[cfg(test)]
mod tests {
    use super::*;

    #[test]
    fn choose_is_monotone_and_in_range() {
        for n in [1usize, 2, 3, 7, 100] {
            let mut prev = 0;
            for w in [0u32, 1, 1000, 1 << 20, 1 << 31, u32::MAX] {
                let mut t = Tape::new(vec![w]);
                let c = t.choose(n);
                assert!(c < n.max(1));
                assert!(c >= prev);
                prev = c;
            }
        }
    }

    #[test]
    fn tape_source_is_deterministic() {
        let s = TapeSource::new(7, 64);
        assert_eq!(s.tape(3), s.tape(3));
        assert_ne!(s.tape(3), s.tape(4));
        assert_ne!(TapeSource::new(8, 64).tape(3), s.tape(3));
    }

    #[test]
    fn shrink_finds_minimum() {
        // Fails iff some word is >= 1000.
        let start: Vec<u32> = (0..50).map(|i| i * 100).collect();
        let r = shrink(&start, |t| t.iter().any(|w| *w >= 1000), 10_000);
        assert_eq!(r, vec![1000]);
    }
}
