//! R-lsp: a minimal JSON-RPC/LSP client over stdio for driving the real `oal-lsp` binary,
//! and helpers for running the real `oal-cli`.

use serde_json::{json, Value};
use std::collections::BTreeMap;
use std::io::{BufRead, BufReader, Read, Write};
use std::os::unix::process::{CommandExt, ExitStatusExt};
use std::path::{Path, PathBuf};
use std::process::{Child, ChildStdin, Command, Stdio};
use std::sync::mpsc::{channel, Receiver, RecvTimeoutError};
use std::sync::{Arc, Mutex};
use std::time::Duration;

pub fn bin_dir() -> PathBuf {
    std::env::var("OALVERIF_BIN_DIR")
        .map(PathBuf::from)
        .unwrap_or_else(|_| PathBuf::from("/verif/target/release"))
}

pub fn cli_bin() -> PathBuf {
    bin_dir().join("oal-cli")
}

pub fn lsp_bin() -> PathBuf {
    bin_dir().join("oal-lsp")
}

/// CPU seconds a child process may use before the kernel kills it (SIGXCPU).
pub const CHILD_CPU_LIMIT_S: u64 = 8;

fn limit_child(cmd: &mut Command) {
    unsafe {
        cmd.pre_exec(|| {
            let lim = libc::rlimit {
                rlim_cur: CHILD_CPU_LIMIT_S,
                rlim_max: CHILD_CPU_LIMIT_S + 2,
            };
            libc::setrlimit(libc::RLIMIT_CPU, &lim);
            Ok(())
        });
    }
}

pub fn status_name(st: &std::process::ExitStatus) -> String {
    match (st.signal(), st.code()) {
        (Some(libc::SIGXCPU), _) => "cpu-limit".to_owned(),
        (Some(s), _) => format!("signal-{s}"),
        (None, Some(c)) => format!("exit-{c}"),
        _ => "unknown".to_owned(),
    }
}

/// A private scratch directory, removed on drop.
pub struct Scratch {
    pub path: PathBuf,
}

impl Scratch {
    pub fn new(tag: &str) -> Scratch {
        static N: std::sync::atomic::AtomicU64 = std::sync::atomic::AtomicU64::new(0);
        let n = N.fetch_add(1, std::sync::atomic::Ordering::SeqCst);
        let p = std::env::temp_dir().join(format!("oalverif-{}-{}-{}", tag, std::process::id(), n));
        let _ = std::fs::remove_dir_all(&p);
        std::fs::create_dir_all(&p).expect("create scratch dir");
        // Canonical path: the language server canonicalises the configuration path.
        let path = p.canonicalize().expect("canonical scratch dir");
        Scratch { path }
    }

    pub fn write(&self, name: &str, text: &str) {
        let p = self.path.join(name);
        if let Some(d) = p.parent() {
            std::fs::create_dir_all(d).ok();
        }
        std::fs::write(p, text).expect("write scratch file");
    }

    pub fn uri(&self, name: &str) -> String {
        format!("file://{}/{}", self.path.display(), name)
    }
}

impl Drop for Scratch {
    fn drop(&mut self) {
        let _ = std::fs::remove_dir_all(&self.path);
    }
}

pub struct CliResult {
    pub status: String,
    pub code: Option<i32>,
    pub stderr: String,
    pub stdout: String,
}

/// Runs the real `oal-cli` in `dir` with the given arguments.
pub fn run_cli(dir: &Path, args: &[&str]) -> CliResult {
    let mut cmd = Command::new(cli_bin());
    cmd.args(args)
        .current_dir(dir)
        .env("NO_COLOR", "1")
        .stdin(Stdio::null())
        .stdout(Stdio::piped())
        .stderr(Stdio::piped());
    limit_child(&mut cmd);
    let out = cmd.output().expect("run oal-cli (was it built?)");
    CliResult {
        status: status_name(&out.status),
        code: out.status.code(),
        stderr: strip_ansi(&String::from_utf8_lossy(&out.stderr)),
        stdout: String::from_utf8_lossy(&out.stdout).to_string(),
    }
}

pub fn strip_ansi(s: &str) -> String {
    let mut out = String::with_capacity(s.len());
    let mut it = s.chars().peekable();
    while let Some(c) = it.next() {
        if c == '\u{1b}' && it.peek() == Some(&'[') {
            it.next();
            for d in it.by_ref() {
                if d.is_ascii_alphabetic() {
                    break;
                }
            }
        } else {
            out.push(c);
        }
    }
    out
}

#[derive(Debug, Clone)]
pub enum LspError {
    /// The server process ended: status and the tail of its stderr.
    Died(String, String),
    /// No answer within the wall-clock limit (inconclusive, never a violation by itself).
    Timeout,
    Protocol(String),
}

pub struct Lsp {
    child: Child,
    stdin: Option<ChildStdin>,
    rx: Receiver<Option<Value>>,
    stderr_tail: Arc<Mutex<String>>,
    next_id: u64,
    /// Last published diagnostics per URI.
    pub diags: BTreeMap<String, Vec<Value>>,
    /// Number of messages sent.
    pub sent: u64,
}

pub const LSP_TIMEOUT: Duration = Duration::from_secs(120);

impl Lsp {
    pub fn start(root: &Path) -> Result<Lsp, LspError> {
        let mut cmd = Command::new(lsp_bin());
        cmd.stdin(Stdio::piped()).stdout(Stdio::piped()).stderr(Stdio::piped()).current_dir(root);
        limit_child(&mut cmd);
        let mut child = cmd.spawn().expect("spawn oal-lsp (was it built?)");
        let stdin = child.stdin.take();
        let stdout = child.stdout.take().unwrap();
        let mut stderr = child.stderr.take().unwrap();
        let (tx, rx) = channel();
        std::thread::spawn(move || {
            let mut r = BufReader::new(stdout);
            loop {
                let mut len: Option<usize> = None;
                loop {
                    let mut line = String::new();
                    match r.read_line(&mut line) {
                        Ok(0) | Err(_) => {
                            let _ = tx.send(None);
                            return;
                        }
                        Ok(_) => {}
                    }
                    let l = line.trim();
                    if l.is_empty() {
                        break;
                    }
                    if let Some(v) = l.to_ascii_lowercase().strip_prefix("content-length:") {
                        len = v.trim().parse().ok();
                    }
                }
                let Some(n) = len else {
                    let _ = tx.send(None);
                    return;
                };
                let mut buf = vec![0u8; n];
                if r.read_exact(&mut buf).is_err() {
                    let _ = tx.send(None);
                    return;
                }
                match serde_json::from_slice::<Value>(&buf) {
                    Ok(v) => {
                        if tx.send(Some(v)).is_err() {
                            return;
                        }
                    }
                    Err(_) => {
                        let _ = tx.send(None);
                        return;
                    }
                }
            }
        });
        let stderr_tail = Arc::new(Mutex::new(String::new()));
        {
            let tail = stderr_tail.clone();
            std::thread::spawn(move || {
                let mut buf = [0u8; 4096];
                loop {
                    match stderr.read(&mut buf) {
                        Ok(0) | Err(_) => return,
                        Ok(n) => {
                            let mut t = tail.lock().unwrap();
                            t.push_str(&String::from_utf8_lossy(&buf[..n]));
                            if t.len() > 4000 {
                                let cut = t.len() - 3000;
                                let mut c = cut;
                                while !t.is_char_boundary(c) {
                                    c += 1;
                                }
                                *t = t[c..].to_owned();
                            }
                        }
                    }
                }
            });
        }
        let mut lsp = Lsp {
            child,
            stdin,
            rx,
            stderr_tail,
            next_id: 0,
            diags: BTreeMap::new(),
            sent: 0,
        };
        let root_uri = format!("file://{}", root.display());
        lsp.request(
            "initialize",
            json!({
                "processId": null,
                "rootUri": null,
                "capabilities": {"general": {"positionEncodings": ["utf-16"]}},
                "workspaceFolders": [{"uri": root_uri, "name": "w"}],
            }),
        )?;
        lsp.notify("initialized", json!({}))?;
        Ok(lsp)
    }

    fn died(&mut self) -> LspError {
        // Give the process a moment to be reaped.
        for _ in 0..200 {
            if let Ok(Some(st)) = self.child.try_wait() {
                let tail = self.stderr_tail.lock().unwrap().clone();
                return LspError::Died(status_name(&st), strip_ansi(&tail));
            }
            std::thread::sleep(Duration::from_millis(10));
        }
        LspError::Died("closed-stdout".to_owned(), self.stderr_tail.lock().unwrap().clone())
    }

    fn send(&mut self, msg: &Value) -> Result<(), LspError> {
        let body = serde_json::to_vec(msg).unwrap();
        let mut frame = format!("Content-Length: {}\r\n\r\n", body.len()).into_bytes();
        frame.extend(body);
        self.sent += 1;
        let ok = match self.stdin.as_mut() {
            Some(s) => s.write_all(&frame).and_then(|_| s.flush()).is_ok(),
            None => false,
        };
        if ok {
            Ok(())
        } else {
            Err(self.died())
        }
    }

    pub fn notify(&mut self, method: &str, params: Value) -> Result<(), LspError> {
        self.send(&json!({"jsonrpc": "2.0", "method": method, "params": params}))
    }

    /// Sends a request and waits for its response; diagnostics published meanwhile are recorded.
    pub fn request(&mut self, method: &str, params: Value) -> Result<Value, LspError> {
        self.next_id += 1;
        let id = self.next_id;
        self.send(&json!({"jsonrpc": "2.0", "id": id, "method": method, "params": params}))?;
        loop {
            match self.rx.recv_timeout(LSP_TIMEOUT) {
                Ok(Some(m)) => {
                    if m.get("method").and_then(|x| x.as_str()) == Some("textDocument/publishDiagnostics") {
                        let uri = m["params"]["uri"].as_str().unwrap_or("").to_owned();
                        let d = m["params"]["diagnostics"].as_array().cloned().unwrap_or_default();
                        self.diags.insert(uri, d);
                    } else if m.get("id").and_then(|x| x.as_u64()) == Some(id) && m.get("method").is_none() {
                        if let Some(e) = m.get("error") {
                            return Err(LspError::Protocol(format!("error response to {method}: {e}")));
                        }
                        return Ok(m.get("result").cloned().unwrap_or(Value::Null));
                    }
                }
                Ok(None) | Err(RecvTimeoutError::Disconnected) => return Err(self.died()),
                Err(RecvTimeoutError::Timeout) => return Err(LspError::Timeout),
            }
        }
    }

    pub fn alive(&mut self) -> bool {
        matches!(self.child.try_wait(), Ok(None))
    }

    pub fn did_open(&mut self, uri: &str, text: &str) -> Result<(), LspError> {
        self.notify(
            "textDocument/didOpen",
            json!({"textDocument": {"uri": uri, "languageId": "oal", "version": 1, "text": text}}),
        )
    }

    pub fn did_close(&mut self, uri: &str) -> Result<(), LspError> {
        self.notify("textDocument/didClose", json!({"textDocument": {"uri": uri}}))
    }

    /// `changes`: list of `(Some(((l0,c0),(l1,c1))), text)` for ranged edits, `(None, text)` for full text.
    pub fn did_change(&mut self, uri: &str, changes: &[(Option<((u32, u32), (u32, u32))>, String)]) -> Result<(), LspError> {
        let cs: Vec<Value> = changes
            .iter()
            .map(|(r, t)| match r {
                Some(((l0, c0), (l1, c1))) => json!({
                    "range": {"start": {"line": l0, "character": c0}, "end": {"line": l1, "character": c1}},
                    "text": t,
                }),
                None => json!({"text": t}),
            })
            .collect();
        self.notify(
            "textDocument/didChange",
            json!({"textDocument": {"uri": uri, "version": 2}, "contentChanges": cs}),
        )
    }

    pub fn position_request(&mut self, method: &str, uri: &str, pos: (u32, u32), extra: Value) -> Result<Value, LspError> {
        let mut p = json!({"textDocument": {"uri": uri}, "position": {"line": pos.0, "character": pos.1}});
        if let (Some(o), Some(e)) = (p.as_object_mut(), extra.as_object()) {
            for (k, v) in e {
                o.insert(k.clone(), v.clone());
            }
        }
        self.request(method, p)
    }

    /// A request used only to force a refresh and to flush diagnostics.
    pub fn barrier(&mut self, uri: &str) -> Result<(), LspError> {
        self.position_request("textDocument/definition", uri, (0, 0), json!({})).map(|_| ())
    }

    pub fn stderr_tail(&self) -> String {
        strip_ansi(&self.stderr_tail.lock().unwrap())
    }
}

impl Drop for Lsp {
    fn drop(&mut self) {
        // Closing stdin makes the server's reader thread end; then make sure it is gone.
        self.stdin.take();
        let _ = self.child.kill();
        let _ = self.child.wait();
    }
}
