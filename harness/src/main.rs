#![allow(dead_code)]

use oalverif::engine::*;
use oalverif::{dev, props};
use std::path::PathBuf;

fn usage() -> ! {
    eprintln!("usage: oalverif check <Cnn> --tier quick|thorough | replay <Cnn> <path>");
    std::process::exit(2)
}

fn main() {
    let args: Vec<String> = std::env::args().collect();
    if args.len() < 3 {
        usage();
    }
    if args[1] == "fuzz-replay" {
        // fuzz-replay <target> <artifact>: the oracle of a libFuzzer target on one saved input (aborts on failure).
        let data = std::fs::read(&args[3]).expect("read artifact");
        oalverif::fuzzing::init();
        match args[2].as_str() {
            "frontend" => oalverif::fuzzing::frontend_oracle(&String::from_utf8_lossy(&data)),
            "typed" => oalverif::fuzzing::typed_oracle(&data),
            "unify" => oalverif::fuzzing::unify_oracle(&data),
            other => {
                eprintln!("unknown target {other}");
                std::process::exit(2);
            }
        }
        println!("FUZZ-REPLAY-PASS");
        std::process::exit(0);
    }
    if args[1] == "dev-expansion" {
        std::process::exit(dev::dev_expansion(&args[2..]));
    }
    if args[1] == "dev-gen" {
        std::process::exit(dev::dev_gen(&args[2..]));
    }
    let Some(prop) = props::find(&args[2]) else {
        eprintln!("unknown property {}", args[2]);
        std::process::exit(2);
    };
    // oal_wasm::compile installs its own panic hook exactly once; trigger that now so that
    // the harness hook installed afterwards stays in place.
    let _ = oal_wasm::compile("");
    let code = match args[1].as_str() {
        "check" => {
            let tier = match args.iter().position(|a| a == "--tier") {
                Some(i) => Tier::parse(args.get(i + 1).map(|s| s.as_str()).unwrap_or("")).unwrap_or_else(|| usage()),
                None => std::env::var("VERIF_TIER").ok().and_then(|t| Tier::parse(&t)).unwrap_or(Tier::Quick),
            };
            driver_main(prop, tier)
        }
        "worker" => {
            // worker <id> <tier> <seed> <start> <end> <stride> <offset> <skip> <cur> <out>
            let tier = Tier::parse(&args[3]).unwrap();
            let a = |i: usize| args[i].parse::<u64>().unwrap();
            let skip = args[9].split(',').filter(|s| !s.is_empty()).map(|s| s.parse().unwrap()).collect();
            worker_main(
                prop,
                WorkerArgs {
                    tier,
                    seed: a(4),
                    start: a(5),
                    end: a(6),
                    stride: a(7),
                    offset: a(8),
                    skip,
                    cur_file: PathBuf::from(&args[10]),
                    out_file: PathBuf::from(&args[11]),
                },
            )
        }
        "exec" => {
            let tier = Tier::parse(&args[3]).unwrap();
            exec_main(prop, tier, args[4].parse().unwrap(), args[5].parse().unwrap())
        }
        "replay" => replay_main(prop, &PathBuf::from(&args[3])),
        "replay-inner" => replay_inner_main(prop, &PathBuf::from(&args[3])),
        _ => usage(),
    };
    std::process::exit(code);
}
