//! The generator's own abstract syntax, kinds and renderer. Nothing here calls oal.

use serde_json::{Map, Value};
use std::collections::BTreeMap;

pub type Bid = usize;
pub type ImportId = usize;
pub type Ann = Map<String, Value>;

#[derive(Clone, Copy, PartialEq, Eq, Hash, Debug, PartialOrd, Ord)]
pub enum Tag {
    Prim,
    Obj,
    Arr,
    Uri,
    Rel,
    Any,
}

pub const ALL_TAGS: [Tag; 6] = [Tag::Prim, Tag::Obj, Tag::Arr, Tag::Uri, Tag::Rel, Tag::Any];

/// What a schema value is at run time.
#[derive(Clone, Copy, PartialEq, Eq, Hash, Debug, PartialOrd, Ord)]
pub enum Shape {
    /// The constructor matching the tag (possibly behind a reference).
    Plain,
    /// The result of `|`, `&` or `~`.
    Op,
    /// A recursion variable.
    RecVar,
}

#[derive(Clone, PartialEq, Eq, Hash, Debug, PartialOrd, Ord)]
pub enum K {
    S(Tag, Shape),
    /// A property whose right-hand side has the given tag.
    P(Tag),
    Content,
    /// The result of `::` (tagged as a content by the checker).
    Ranges,
    Transfer,
    Text,
    Number,
    Status,
    F(Vec<K>, Box<K>),
}

impl K {
    pub fn is_schema(&self) -> bool {
        matches!(self, K::S(_, _))
    }
    pub fn tag(&self) -> Option<Tag> {
        match self {
            K::S(t, _) => Some(*t),
            _ => None,
        }
    }
    /// The checker's view of the kind: shapes are invisible to it.
    pub fn coarse(&self) -> K {
        match self {
            K::S(t, _) => K::S(*t, Shape::Plain),
            K::Ranges => K::Content,
            K::F(ps, r) => K::F(ps.iter().map(|p| p.coarse()).collect(), Box::new(r.coarse())),
            k => k.clone(),
        }
    }
}

#[derive(Clone, Copy, PartialEq, Eq, Hash, Debug)]
pub enum Prim {
    Num,
    Str,
    Bool,
    Int,
    Uri,
}

impl Prim {
    pub fn text(&self) -> &'static str {
        match self {
            Prim::Num => "num",
            Prim::Str => "str",
            Prim::Bool => "bool",
            Prim::Int => "int",
            Prim::Uri => "uri",
        }
    }
}

#[derive(Clone, Copy, PartialEq, Eq, Hash, Debug, PartialOrd, Ord)]
pub enum Method {
    Get,
    Put,
    Post,
    Patch,
    Delete,
    Options,
    Head,
}

pub const ALL_METHODS: [Method; 7] = [
    Method::Get,
    Method::Put,
    Method::Post,
    Method::Patch,
    Method::Delete,
    Method::Options,
    Method::Head,
];

impl Method {
    pub fn text(&self) -> &'static str {
        match self {
            Method::Get => "get",
            Method::Put => "put",
            Method::Post => "post",
            Method::Patch => "patch",
            Method::Delete => "delete",
            Method::Options => "options",
            Method::Head => "head",
        }
    }
}

#[derive(Clone, Copy, PartialEq, Eq, Hash, Debug)]
pub enum OpKind {
    Join,  // &
    Any,   // ~
    Sum,   // |
    Range, // ::
}

impl OpKind {
    pub fn text(&self) -> &'static str {
        match self {
            OpKind::Join => "&",
            OpKind::Any => "~",
            OpKind::Sum => "|",
            OpKind::Range => "::",
        }
    }
}

#[derive(Clone, Copy, PartialEq, Eq, Hash, Debug)]
pub enum MetaKind {
    Media,
    Status,
    Headers,
}

impl MetaKind {
    pub fn text(&self) -> &'static str {
        match self {
            MetaKind::Media => "media",
            MetaKind::Status => "status",
            MetaKind::Headers => "headers",
        }
    }
}

#[derive(Clone, PartialEq, Debug)]
pub struct VarRef {
    /// The binder the generator means; `None` for the built-in `concat` or a deliberately unbound name.
    pub binder: Option<Bid>,
    /// The import through which a declaration of another module is reached.
    pub via: Option<ImportId>,
    /// The spelling, when there is no binder (built-in or unbound).
    pub free_name: Option<String>,
}

#[derive(Clone, PartialEq, Debug)]
pub enum Seg {
    /// A bare `/`.
    Root,
    /// `/name`
    Lit(String),
    /// `/{ property }`
    Var(E),
}

#[derive(Clone, PartialEq, Debug)]
pub enum E {
    Num(u64),
    /// A number literal too large for the lexer's representation (rendered verbatim).
    Str(String),
    Status(u8),
    Prim(Prim),
    Object(Vec<E>),
    Array(Box<E>),
    Uri(Vec<Seg>, Option<Vec<E>>),
    Property(String, Option<bool>, Box<E>),
    Unary(Box<E>, bool),
    Content(Vec<(MetaKind, E)>, Option<Box<E>>),
    Op(OpKind, Vec<E>),
    Transfer {
        methods: Vec<Method>,
        params: Option<Vec<E>>,
        domain: Option<Box<E>>,
        range: Box<E>,
    },
    Relation(Box<E>, Vec<E>),
    Rec(Bid, Box<E>),
    Var(VarRef),
    App(VarRef, Vec<E>),
    Paren(Box<E>),
    /// A terminal with line annotations before and/or an inline annotation after.
    Ann(Vec<Ann>, Option<Ann>, Box<E>),
}

#[derive(Clone, PartialEq, Debug)]
pub struct Decl {
    pub id: Bid,
    pub anns: Vec<Ann>,
    pub params: Vec<Bid>,
    pub body: E,
}

#[derive(Clone, PartialEq, Debug)]
pub enum Stmt {
    Use(ImportId),
    Let(Decl),
    Res(E),
}

#[derive(Clone, PartialEq, Debug)]
pub struct Module {
    pub file: String,
    pub stmts: Vec<Stmt>,
}

#[derive(Clone, PartialEq, Debug)]
pub struct Import {
    pub module: usize,
    pub target: usize,
    /// The path as written in the `use` statement.
    pub path: String,
    pub qualifier: Option<String>,
}

#[derive(Clone, PartialEq, Debug)]
pub enum BinderKind {
    Decl { module: usize },
    Param { decl: Bid },
    Rec,
}

#[derive(Clone, PartialEq, Debug)]
pub struct Binder {
    pub name: String,
    pub kind: BinderKind,
    pub k: K,
}

#[derive(Clone, PartialEq, Debug, Default)]
pub struct Program {
    /// `modules[0]` is the main module.
    pub modules: Vec<Module>,
    pub imports: Vec<Import>,
    pub binders: Vec<Binder>,
}

impl Program {
    pub fn decl(&self, id: Bid) -> Option<(usize, &Decl)> {
        for (mi, m) in self.modules.iter().enumerate() {
            for s in &m.stmts {
                if let Stmt::Let(d) = s {
                    if d.id == id {
                        return Some((mi, d));
                    }
                }
            }
        }
        None
    }

    pub fn decls(&self) -> impl Iterator<Item = (usize, &Decl)> {
        self.modules.iter().enumerate().flat_map(|(mi, m)| {
            m.stmts.iter().filter_map(move |s| match s {
                Stmt::Let(d) => Some((mi, d)),
                _ => None,
            })
        })
    }

    pub fn fresh_binder(&mut self, name: String, kind: BinderKind, k: K) -> Bid {
        self.binders.push(Binder { name, kind, k });
        self.binders.len() - 1
    }
}

// ------------------------------------------------------------------------------------------
// Rendering

/// What an identifier token is, for the binding-table based oracles (C08, C17, C18).
#[derive(Clone, PartialEq, Debug)]
pub enum Occ {
    /// The identifier of a declaration statement.
    DeclName(Bid),
    /// A parameter or `rec` binder at its binding site.
    BindSite(Bid),
    /// A use: the binder meant by the generator (`None`: built-in or unbound).
    Use(Option<Bid>),
    /// The `q` in `use "…" as q`.
    QualDef(ImportId),
    /// The `q` in `q.x`.
    QualUse(ImportId),
}

#[derive(Clone, Debug)]
pub struct Tok {
    pub text: String,
    pub occ: Option<Occ>,
    /// Set on the first token of a statement: the statement index.
    pub stmt_start: Option<usize>,
    /// Set on the last token of a statement.
    pub stmt_end: bool,
    /// No whitespace is needed (or allowed to be dropped) before this token when it follows `.`.
    pub glue: bool,
}

impl Tok {
    fn new<S: Into<String>>(s: S) -> Tok {
        Tok {
            text: s.into(),
            occ: None,
            stmt_start: None,
            stmt_end: false,
            glue: false,
        }
    }
    fn occ<S: Into<String>>(s: S, occ: Occ) -> Tok {
        Tok {
            occ: Some(occ),
            ..Tok::new(s)
        }
    }
}

/// Syntactic levels, tightest first.
#[derive(Clone, Copy, PartialEq, Eq, PartialOrd, Ord, Debug)]
pub enum Lvl {
    Term,
    Unary,
    Apply,
    Range,
    Join,
    Any,
    Sum,
    Expr,
}

fn level_of(e: &E) -> Lvl {
    match e {
        E::Num(_) | E::Str(_) | E::Status(_) | E::Prim(_) | E::Object(_) | E::Array(_) | E::Uri(_, _) | E::Content(_, _) => Lvl::Term,
        E::Var(_) | E::Paren(_) => Lvl::Term,
        // A property swallows everything to its right: it is a term only where an expression may end.
        E::Property(_, _, _) => Lvl::Expr,
        E::Ann(_, inline, inner) => {
            // Line annotations in front of a property keep it open-ended; everything else is
            // rendered as a (possibly parenthesised) term so that the annotations apply to all of it.
            if inline.is_none() && matches!(**inner, E::Property(_, _, _)) {
                Lvl::Expr
            } else {
                Lvl::Term
            }
        }
        E::Unary(_, _) => Lvl::Unary,
        E::App(_, _) => Lvl::Apply,
        E::Op(OpKind::Range, _) => Lvl::Range,
        E::Op(OpKind::Join, _) => Lvl::Join,
        E::Op(OpKind::Any, _) => Lvl::Any,
        E::Op(OpKind::Sum, _) => Lvl::Sum,
        E::Transfer { .. } | E::Relation(_, _) | E::Rec(_, _) => Lvl::Expr,
    }
}

/// Whether the right edge of `e`, rendered unparenthesised, is a relation (whose transfer list
/// would swallow a following comma-separated item).
fn comma_hazard(e: &E) -> bool {
    match e {
        E::Relation(_, _) => true,
        E::Property(_, _, rhs) => comma_hazard(rhs),
        E::Rec(_, body) => comma_hazard(body),
        E::Ann(_, None, inner) if matches!(**inner, E::Property(_, _, _)) => comma_hazard(inner),
        _ => false,
    }
}

pub fn ann_value_text(v: &Value) -> String {
    match v {
        Value::Null => "null".to_owned(),
        Value::Bool(b) => b.to_string(),
        Value::Number(n) => n.to_string(),
        Value::String(s) => serde_json::to_string(s).unwrap(),
        Value::Array(a) => format!("[{}]", a.iter().map(ann_value_text).collect::<Vec<_>>().join(", ")),
        Value::Object(o) => format!(
            "{{{}}}",
            o.iter().map(|(k, v)| format!("{}: {}", ann_key_text(k), ann_value_text(v))).collect::<Vec<_>>().join(", ")
        ),
    }
}

fn ann_key_text(k: &str) -> String {
    if !k.is_empty() && k.chars().all(|c| c.is_ascii_alphanumeric()) && !k.chars().next().unwrap().is_ascii_digit() && !["null", "true", "false", "yes", "no", "on", "off", "y", "n"].contains(&k.to_ascii_lowercase().as_str()) {
        k.to_owned()
    } else {
        serde_json::to_string(k).unwrap()
    }
}

pub fn ann_text(a: &Ann) -> String {
    a.iter().map(|(k, v)| format!("{}: {}", ann_key_text(k), ann_value_text(v))).collect::<Vec<_>>().join(", ")
}

pub struct Renderer<'a> {
    pub prog: &'a Program,
    pub toks: Vec<Tok>,
}

impl<'a> Renderer<'a> {
    pub fn new(prog: &'a Program) -> Self {
        Renderer { prog, toks: Vec::new() }
    }

    fn p(&mut self, s: &str) {
        self.toks.push(Tok::new(s));
    }

    fn name(&self, b: Bid) -> String {
        self.prog.binders[b].name.clone()
    }

    fn var(&mut self, v: &VarRef) {
        if let Some(imp) = v.via {
            if let Some(q) = &self.prog.imports[imp].qualifier {
                self.toks.push(Tok::occ(q.clone(), Occ::QualUse(imp)));
                let mut dot = Tok::new(".");
                dot.glue = true;
                self.toks.push(dot);
                let n = match v.binder {
                    Some(b) => self.name(b),
                    None => v.free_name.clone().unwrap_or_else(|| "unbound".to_owned()),
                };
                let mut t = Tok::occ(n, Occ::Use(v.binder));
                t.glue = true;
                self.toks.push(t);
                return;
            }
        }
        let n = match v.binder {
            Some(b) => self.name(b),
            None => v.free_name.clone().unwrap_or_else(|| "unbound".to_owned()),
        };
        self.toks.push(Tok::occ(n, Occ::Use(v.binder)));
    }

    fn ann_line(&mut self, a: &Ann) {
        // A line annotation runs to the end of the line, newline included.
        self.toks.push(Tok::new(format!("# {}\n", ann_text(a))));
    }

    fn list(&mut self, items: &[E]) {
        for (i, it) in items.iter().enumerate() {
            if i > 0 {
                self.p(",");
            }
            if i + 1 < items.len() && comma_hazard(it) {
                // A relation at the right edge would take the following items for transfers.
                self.p("(");
                self.expr(it, Lvl::Expr);
                self.p(")");
            } else {
                self.expr(it, Lvl::Expr);
            }
        }
    }

    /// Renders `e` in a position that accepts level `max` or tighter; parenthesises otherwise.
    pub fn expr(&mut self, e: &E, max: Lvl) {
        if level_of(e) > max {
            self.p("(");
            self.expr(e, Lvl::Expr);
            self.p(")");
            return;
        }
        match e {
            E::Num(n) => self.p(&n.to_string()),
            E::Str(s) => self.p(&format!("\"{s}\"")),
            E::Status(d) => self.p(&format!("{d}XX")),
            E::Prim(p) => self.p(p.text()),
            E::Object(props) => {
                self.p("{");
                self.list(props);
                self.p("}");
            }
            E::Array(inner) => {
                self.p("[");
                self.expr(inner, Lvl::Expr);
                self.p("]");
            }
            E::Uri(segs, params) => {
                for s in segs {
                    match s {
                        Seg::Root => self.p("/"),
                        Seg::Lit(l) => self.p(&format!("/{l}")),
                        Seg::Var(p) => {
                            self.p("/");
                            self.p("{");
                            self.expr(p, Lvl::Expr);
                            self.p("}");
                        }
                    }
                }
                if let Some(ps) = params {
                    self.p("?");
                    self.p("{");
                    self.list(ps);
                    self.p("}");
                }
            }
            E::Property(name, mark, rhs) => {
                self.p(&format!("'{name}"));
                match mark {
                    Some(true) => self.p("!"),
                    Some(false) => self.p("?"),
                    None => {}
                }
                self.expr(rhs, Lvl::Expr);
            }
            E::Unary(inner, req) => {
                self.expr(inner, Lvl::Term);
                self.p(if *req { "!" } else { "?" });
            }
            E::Content(metas, body) => {
                self.p("<");
                let mut first = true;
                for (k, v) in metas {
                    if !first {
                        self.p(",");
                    }
                    first = false;
                    self.p(k.text());
                    self.p("=");
                    self.expr(v, Lvl::Expr);
                }
                if let Some(b) = body {
                    if !first {
                        self.p(",");
                    }
                    self.expr(b, Lvl::Expr);
                }
                self.p(">");
            }
            E::Op(k, operands) => {
                let sub = match k {
                    OpKind::Range => Lvl::Apply,
                    OpKind::Join => Lvl::Range,
                    OpKind::Any => Lvl::Join,
                    OpKind::Sum => Lvl::Any,
                };
                for (i, o) in operands.iter().enumerate() {
                    if i > 0 {
                        self.p(k.text());
                    }
                    self.expr(o, sub);
                }
            }
            E::Transfer { methods, params, domain, range } => {
                for (i, m) in methods.iter().enumerate() {
                    if i > 0 {
                        self.p(",");
                    }
                    self.p(m.text());
                }
                if let Some(ps) = params {
                    self.p("{");
                    self.list(ps);
                    self.p("}");
                }
                if let Some(d) = domain {
                    self.p(":");
                    self.expr(d, Lvl::Term);
                }
                self.p("->");
                self.expr(range, Lvl::Range);
            }
            E::Relation(uri, xfers) => {
                self.expr(uri, Lvl::Term);
                self.p("on");
                self.list(xfers);
            }
            E::Rec(b, body) => {
                self.p("rec");
                self.toks.push(Tok::occ(self.name(*b), Occ::BindSite(*b)));
                self.expr(body, Lvl::Expr);
            }
            E::Var(v) => self.var(v),
            E::App(f, args) => {
                self.var(f);
                for a in args {
                    // `f /a /b` would read as the single path `/a/b`: bare templates get parentheses.
                    match a {
                        E::Uri(_, _) => {
                            self.p("(");
                            self.expr(a, Lvl::Expr);
                            self.p(")");
                        }
                        E::Ann(lines, inline, inner) if matches!(**inner, E::Uri(_, _)) => {
                            for l in lines {
                                self.ann_line(l);
                            }
                            self.p("(");
                            self.expr(inner, Lvl::Expr);
                            self.p(")");
                            if let Some(a) = inline {
                                self.toks.push(Tok::new(format!("`{}`", ann_text(a))));
                            }
                        }
                        _ => self.expr(a, Lvl::Term),
                    }
                }
            }
            E::Paren(inner) => {
                self.p("(");
                self.expr(inner, Lvl::Expr);
                self.p(")");
            }
            E::Ann(lines, inline, inner) => {
                for l in lines {
                    self.ann_line(l);
                }
                if inline.is_none() && matches!(**inner, E::Property(_, _, _)) {
                    self.expr(inner, Lvl::Expr);
                } else {
                    // The annotations must attach to this whole term, not to a term inside it.
                    self.expr(inner, Lvl::Term);
                }
                if let Some(a) = inline {
                    self.toks.push(Tok::new(format!("`{}`", ann_text(a))));
                }
            }
        }
    }

    pub fn module(&mut self, mi: usize) {
        let m = &self.prog.modules[mi];
        for (si, s) in m.stmts.iter().enumerate() {
            let first = self.toks.len();
            match s {
                Stmt::Use(imp) => {
                    let i = &self.prog.imports[*imp];
                    self.p("use");
                    self.p(&format!("\"{}\"", i.path));
                    if let Some(q) = &i.qualifier {
                        self.p("as");
                        self.toks.push(Tok::occ(q.clone(), Occ::QualDef(*imp)));
                    }
                    self.p(";");
                }
                Stmt::Let(d) => {
                    for a in &d.anns {
                        self.ann_line(a);
                    }
                    self.p("let");
                    self.toks.push(Tok::occ(self.name(d.id), Occ::DeclName(d.id)));
                    for p in &d.params {
                        self.toks.push(Tok::occ(self.name(*p), Occ::BindSite(*p)));
                    }
                    self.p("=");
                    self.expr(&d.body, Lvl::Expr);
                    self.p(";");
                }
                Stmt::Res(e) => {
                    self.p("res");
                    self.expr(e, Lvl::Expr);
                    self.p(";");
                }
            }
            self.toks[first].stmt_start = Some(si);
            let last = self.toks.len() - 1;
            self.toks[last].stmt_end = true;
        }
    }
}

/// A rendered module: text plus the byte span of every token.
#[derive(Clone, Debug)]
pub struct Rendered {
    pub file: String,
    pub text: String,
    pub toks: Vec<Tok>,
    pub spans: Vec<(usize, usize)>,
}

/// Joins tokens with the separators produced by `sep(i)` (the text placed before token `i`).
pub fn layout(file: &str, toks: Vec<Tok>, mut sep: impl FnMut(usize, &Tok) -> String) -> Rendered {
    let mut text = String::new();
    let mut spans = Vec::with_capacity(toks.len());
    for (i, t) in toks.iter().enumerate() {
        let s = sep(i, t);
        text.push_str(&s);
        let a = text.len();
        text.push_str(&t.text);
        spans.push((a, text.len()));
    }
    if !text.ends_with('\n') {
        text.push('\n');
    }
    Rendered { file: file.to_owned(), text, toks, spans }
}

/// Plain layout: one statement per line, single blanks between tokens.
pub fn render_plain(prog: &Program) -> Vec<Rendered> {
    (0..prog.modules.len())
        .map(|mi| {
            let mut r = Renderer::new(prog);
            r.module(mi);
            layout(&prog.modules[mi].file, r.toks, |i, t| {
                if i == 0 {
                    String::new()
                } else if t.stmt_start.is_some() {
                    "\n".to_owned()
                } else if t.glue {
                    String::new()
                } else {
                    " ".to_owned()
                }
            })
        })
        .collect()
}

pub fn to_sources(rendered: &[Rendered]) -> crate::oal::Sources {
    let mut files = BTreeMap::new();
    for r in rendered {
        files.insert(r.file.clone(), r.text.clone());
    }
    let sources = crate::oal::Sources {
        main: rendered[0].file.clone(),
        files,
    };
    // Developer aid: OALVERIF_TRACE=<file> appends every rendered program before it is evaluated
    // (to look at a case that kills the process).
    static TRACE: std::sync::OnceLock<Option<String>> = std::sync::OnceLock::new();
    if let Some(path) = TRACE.get_or_init(|| std::env::var("OALVERIF_TRACE").ok()) {
        use std::io::Write;
        if let Ok(mut f) = std::fs::OpenOptions::new().create(true).append(true).open(path) {
            let _ = writeln!(f, "{}", sources.to_json());
        }
    }
    sources
}

/// Layout with tape-chosen trivia between tokens: blanks, tabs, LF, CRLF, line comments and block
/// comments (with multi-byte characters), always at least one blank between two tokens.
pub fn render_trivia(prog: &Program, t: &mut crate::tape::Tape) -> Vec<Rendered> {
    const SEPS: [&str; 14] = [
        " ", " ", "\n", "  ", "\t", "\r\n", " \n ", " // c\n", " /* c */ ", "\n// caf\u{e9} \u{1F600}\n", " /* \u{20ac}\n multi */\n", "\r\n\t", " /**/ ", "\n\n",
    ];
    (0..prog.modules.len())
        .map(|mi| {
            let mut r = Renderer::new(prog);
            r.module(mi);
            let mut seps: Vec<String> = Vec::with_capacity(r.toks.len());
            for (i, tok) in r.toks.iter().enumerate() {
                let s = if i == 0 {
                    if t.chance(1, 4) {
                        t.pick(&SEPS).to_owned()
                    } else {
                        String::new()
                    }
                } else if tok.glue && t.chance(1, 2) {
                    String::new()
                } else if t.chance(1, 3) {
                    t.pick(&SEPS).to_owned()
                } else if tok.stmt_start.is_some() {
                    "\n".to_owned()
                } else {
                    " ".to_owned()
                };
                seps.push(s);
            }
            layout(&prog.modules[mi].file, r.toks, |i, _| seps[i].clone())
        })
        .collect()
}

// ------------------------------------------------------------------------------------------
// Traversal

impl E {
    /// Direct sub-expressions, in source order.
    pub fn children_mut(&mut self) -> Vec<&mut E> {
        match self {
            E::Num(_) | E::Str(_) | E::Status(_) | E::Prim(_) | E::Var(_) => vec![],
            E::Object(ps) => ps.iter_mut().collect(),
            E::Array(i) | E::Paren(i) | E::Unary(i, _) | E::Rec(_, i) | E::Ann(_, _, i) => vec![i.as_mut()],
            E::Property(_, _, rhs) => vec![rhs.as_mut()],
            E::Uri(segs, params) => {
                let mut v: Vec<&mut E> = Vec::new();
                for s in segs.iter_mut() {
                    if let Seg::Var(e) = s {
                        v.push(e);
                    }
                }
                if let Some(ps) = params {
                    v.extend(ps.iter_mut());
                }
                v
            }
            E::Content(metas, body) => {
                let mut v: Vec<&mut E> = metas.iter_mut().map(|(_, e)| e).collect();
                if let Some(b) = body {
                    v.push(b.as_mut());
                }
                v
            }
            E::Op(_, os) => os.iter_mut().collect(),
            E::Transfer { params, domain, range, .. } => {
                let mut v: Vec<&mut E> = Vec::new();
                if let Some(ps) = params {
                    v.extend(ps.iter_mut());
                }
                if let Some(d) = domain {
                    v.push(d.as_mut());
                }
                v.push(range.as_mut());
                v
            }
            E::Relation(u, xs) => {
                let mut v: Vec<&mut E> = vec![u.as_mut()];
                v.extend(xs.iter_mut());
                v
            }
            E::App(_, args) => args.iter_mut().collect(),
        }
    }

    pub fn children(&self) -> Vec<&E> {
        match self {
            E::Num(_) | E::Str(_) | E::Status(_) | E::Prim(_) | E::Var(_) => vec![],
            E::Object(ps) => ps.iter().collect(),
            E::Array(i) | E::Paren(i) | E::Unary(i, _) | E::Rec(_, i) | E::Ann(_, _, i) => vec![i.as_ref()],
            E::Property(_, _, rhs) => vec![rhs.as_ref()],
            E::Uri(segs, params) => {
                let mut v: Vec<&E> = Vec::new();
                for s in segs.iter() {
                    if let Seg::Var(e) = s {
                        v.push(e);
                    }
                }
                if let Some(ps) = params {
                    v.extend(ps.iter());
                }
                v
            }
            E::Content(metas, body) => {
                let mut v: Vec<&E> = metas.iter().map(|(_, e)| e).collect();
                if let Some(b) = body {
                    v.push(b.as_ref());
                }
                v
            }
            E::Op(_, os) => os.iter().collect(),
            E::Transfer { params, domain, range, .. } => {
                let mut v: Vec<&E> = Vec::new();
                if let Some(ps) = params {
                    v.extend(ps.iter());
                }
                if let Some(d) = domain {
                    v.push(d.as_ref());
                }
                v.push(range.as_ref());
                v
            }
            E::Relation(u, xs) => {
                let mut v: Vec<&E> = vec![u.as_ref()];
                v.extend(xs.iter());
                v
            }
            E::App(_, args) => args.iter().collect(),
        }
    }

    /// Pre-order visit of every node.
    pub fn visit<'a>(&'a self, f: &mut dyn FnMut(&'a E)) {
        f(self);
        for c in self.children() {
            c.visit(f);
        }
    }

    /// Pre-order visit with mutation; `f` returns false to stop descending into the node.
    pub fn visit_mut(&mut self, f: &mut dyn FnMut(&mut E) -> bool) {
        if f(self) {
            for c in self.children_mut() {
                c.visit_mut(f);
            }
        }
    }
}

impl Program {
    /// Visits every top-level expression (declaration bodies and resources).
    pub fn visit_exprs_mut(&mut self, f: &mut dyn FnMut(&mut E) -> bool) {
        for m in self.modules.iter_mut() {
            for s in m.stmts.iter_mut() {
                match s {
                    Stmt::Let(d) => d.body.visit_mut(f),
                    Stmt::Res(e) => e.visit_mut(f),
                    Stmt::Use(_) => {}
                }
            }
        }
    }

    pub fn visit_exprs<'a>(&'a self, f: &mut dyn FnMut(&'a E)) {
        for m in self.modules.iter() {
            for s in m.stmts.iter() {
                match s {
                    Stmt::Let(d) => d.body.visit(f),
                    Stmt::Res(e) => e.visit(f),
                    Stmt::Use(_) => {}
                }
            }
        }
    }
}

// ---------------------------------------------------------------------------------------------
// Expansion estimate

/// What a parameter is bound to while estimating: the size of a value, or a function.
#[derive(Clone, Copy)]
enum Sz {
    Data(f64),
    Func(Bid),
}

struct Expansion<'p> {
    prog: &'p Program,
    decls: BTreeMap<Bid, &'p Decl>,
    memo: BTreeMap<Bid, f64>,
    in_progress: Vec<Bid>,
    visits: u64,
}

impl<'p> Expansion<'p> {
    fn function_of(&self, e: &E, env: &BTreeMap<Bid, Sz>) -> Option<Bid> {
        match e {
            E::Paren(inner) | E::Ann(_, _, inner) => self.function_of(inner, env),
            E::Var(v) => {
                let b = v.binder?;
                match self.prog.binders[b].kind {
                    BinderKind::Decl { .. } => self.decls.get(&b).filter(|d| !d.params.is_empty()).map(|_| b),
                    _ => match env.get(&b) {
                        Some(Sz::Func(f)) => Some(*f),
                        _ => None,
                    },
                }
            }
            _ => None,
        }
    }

    fn decl_size(&mut self, b: Bid) -> f64 {
        if let Some(s) = self.memo.get(&b) {
            return *s;
        }
        let Some(d) = self.decls.get(&b).copied() else { return 1.0 };
        if !d.params.is_empty() || self.in_progress.contains(&b) {
            return 1.0;
        }
        self.in_progress.push(b);
        let s = self.size(&d.body, &BTreeMap::new());
        self.in_progress.pop();
        self.memo.insert(b, s);
        s
    }

    fn size(&mut self, e: &E, env: &BTreeMap<Bid, Sz>) -> f64 {
        self.visits += 1;
        if self.visits > 400_000 {
            return f64::INFINITY;
        }
        match e {
            E::Var(v) => match v.binder {
                None => 1.0,
                Some(b) => match self.prog.binders[b].kind {
                    BinderKind::Decl { .. } => self.decl_size(b),
                    _ => match env.get(&b) {
                        Some(Sz::Data(s)) => *s,
                        _ => 1.0,
                    },
                },
            },
            E::App(v, args) => {
                let target = match v.binder {
                    Some(b) => match self.prog.binders[b].kind {
                        BinderKind::Decl { .. } => Some(b),
                        _ => match env.get(&b) {
                            Some(Sz::Func(f)) => Some(*f),
                            _ => None,
                        },
                    },
                    None => None,
                };
                let mut vals = Vec::new();
                let mut sum = 1.0;
                for a in args {
                    match self.function_of(a, env) {
                        Some(f) => vals.push(Sz::Func(f)),
                        None => {
                            let s = self.size(a, env);
                            sum += s;
                            vals.push(Sz::Data(s));
                        }
                    }
                }
                match target.and_then(|f| self.decls.get(&f).copied()) {
                    Some(d) if !d.params.is_empty() && !self.in_progress.contains(&d.id) => {
                        let mut inner = BTreeMap::new();
                        for (p, v) in d.params.iter().zip(vals) {
                            inner.insert(*p, v);
                        }
                        self.in_progress.push(d.id);
                        let s = self.size(&d.body, &inner);
                        self.in_progress.pop();
                        // Arguments are evaluated once, the body once per application.
                        sum + s
                    }
                    _ => sum,
                }
            }
            other => 1.0 + other.children().into_iter().map(|c| self.size(c, env)).sum::<f64>(),
        }
    }
}

/// An estimate of the number of nodes of the values the evaluator builds for the program:
/// declarations are inlined at every use and function bodies at every application, so the values
/// of a program of n tokens can have exponentially many nodes. Generators use it to stay within
/// programs whose evaluation is feasible (a bound on the *input domain*, not on oal).
pub fn expansion_estimate(prog: &Program) -> f64 {
    let mut decls = BTreeMap::new();
    for (_, d) in prog.decls() {
        decls.insert(d.id, d);
    }
    let mut x = Expansion { prog, decls, memo: BTreeMap::new(), in_progress: Vec::new(), visits: 0 };
    let mut total = 0.0;
    for m in &prog.modules {
        for s in &m.stmts {
            match s {
                Stmt::Res(e) => total += x.size(e, &BTreeMap::new()),
                Stmt::Let(d) if d.params.is_empty() => total += x.decl_size(d.id),
                _ => {}
            }
        }
    }
    total
}
