//! G-typed / G-loose: kind-directed generator of module sets over the generator's own AST.
//! It never calls oal to decide what to generate.

use super::ast::*;
use crate::tape::Tape;
use serde_json::{json, Value};
use std::collections::{BTreeMap, BTreeSet, VecDeque};

/// Bound on `expansion_estimate` for generated programs (nodes of evaluated values).
pub const EXPANSION_LIMIT: f64 = 150_000.0;

#[derive(Clone, Debug)]
pub struct GenCfg {
    /// Avoid, by construction, the classes excluded from the strict fragment.
    pub strict: bool,
    /// Kind confusions that the checker's coarse tags let through (each a known finding).
    pub loose_ranges_as_content: bool, // F2
    pub loose_op_as_plain: bool,       // F4
    pub loose_rec_as_plain: bool,      // F3
    pub loose_cross_module_poly: bool, // F1
    /// Let a cycle be closed at a head position (`let a = b; let b = a;`, `rec x x`): whether such
    /// a program is accepted depends on what else forces its kind; for crash-freedom checks only.
    pub loose_head_cycles: bool,
    /// Let two modules declare the same `@name` even in the strict fragment (evaluating both is
    /// an error the reference semantics expects).
    pub at_name_clash: bool,
    /// Draw names from a very small pool so that shadowing happens often.
    pub shadowing: bool,
    /// Let declaration bodies mention declarations that are still being generated (cycles).
    pub cycles: bool,
    pub max_modules: usize,
    pub max_decls: usize,
    pub max_depth: usize,
    pub annotations: bool,
    pub max_resources: usize,
    /// Also close cycles that have nothing to cut at (expected to be rejected).
    pub invalid_cycles: bool,
    /// Place imported modules in sub-directories.
    pub subdirs: bool,
    /// Stress lexical scoping: functions of 2-3 same-kinded parameters named from a 3-name pool,
    /// whose bodies pass their parameters on to other functions in any order.
    pub scope_stress: bool,
}

impl GenCfg {
    pub fn strict() -> Self {
        GenCfg {
            strict: true,
            loose_ranges_as_content: false,
            loose_op_as_plain: false,
            loose_rec_as_plain: false,
            loose_cross_module_poly: false,
            loose_head_cycles: false,
            at_name_clash: false,
            shadowing: false,
            cycles: true,
            max_modules: 3,
            max_decls: 10,
            max_depth: 4,
            annotations: true,
            max_resources: 3,
            invalid_cycles: false,
            subdirs: true,
            scope_stress: false,
        }
    }
    pub fn full() -> Self {
        GenCfg { strict: false, ..GenCfg::strict() }
    }
}

/// What a position accepts.
#[derive(Clone, Debug, PartialEq)]
pub enum Want {
    /// Any schema (optionally of a given tag), any run-time shape.
    Schema(Option<Tag>),
    /// A schema of the given tag whose run-time value is the matching constructor.
    Plain(Tag),
    Prop(Option<Tag>),
    Content,
    ContentLike,
    RangesLike,
    Transfer,
    Text,
    Number,
    /// A status range literal such as `4XX` (or something bound to one).
    Status,
    StatusLike,
}

struct Pending {
    id: Bid,
    module: usize,
    /// Declarations completed before this one was created may be mentioned from its plain slots.
    created_at: usize,
    acyclic: bool,
}

pub struct Gen<'t> {
    pub t: &'t mut Tape,
    pub cfg: GenCfg,
    pub prog: Program,
    queue: VecDeque<Pending>,
    /// Declarations per module, in creation order.
    mod_decls: Vec<Vec<Bid>>,
    /// Completion time of each finished declaration.
    completed: BTreeMap<Bid, usize>,
    acyclic: BTreeSet<Bid>,
    clock: usize,
    // Current context
    cur_module: usize,
    cur: Option<Pending>,
    scope: Vec<Bid>,
    budget: isize,
    /// Whether the position being generated is the head of a declaration body, of a `rec` body or
    /// of an argument (nothing but parentheses and annotations between it and that root).
    head: bool,
    /// The head is that of a `rec` body (whose kind must be known inside the module: no parameters).
    rec_head: bool,
    /// Mentions between declarations generated so far.
    edges: BTreeSet<(Bid, Bid)>,
    at_names: BTreeSet<String>,
    used_paths: BTreeSet<String>,
    /// A name the next literal property must take (distinct names in lists, unique names for
    /// property declarations).
    prop_name_hint: Option<String>,
    /// Methods already taken by the transfers of the relation being generated.
    used_methods: Vec<Method>,
    /// Statuses still free for the contents of the ranges being generated.
    status_pool: Option<Vec<Option<E>>>,
    pub labels: BTreeSet<&'static str>,
}

const NAME_POOL: &[&str] = &["a", "b", "c", "d", "e", "f", "g", "h", "k", "m", "n", "p", "q", "r", "s", "t", "u", "v", "w", "x", "y", "z"];
const SMALL_POOL: &[&str] = &["a", "b", "x", "y"];
const PROP_NAMES: &[&str] = &["id", "name", "n", "v", "w", "a-b", "x_1", "null", "true", "123", "$ref", "-", "type", "If-Match", "ETag"];
const SEGMENTS: &[&str] = &["a", "b", "items", "v1", "x.y", "p~q", "A", "a-b", "%41", "c_d"];
const MEDIA: &[&str] = &["application/json", "text/plain", "a/b", "application/vnd.x+json", "image/*"];
const STRINGS: &[&str] = &["s", "null", "1e3", "~", " lead", "trail ", "a: b", "# no", "it's", "caf\u{e9}", "\u{1F600}", "", "true", "0"];

impl<'t> Gen<'t> {
    pub fn new(t: &'t mut Tape, cfg: GenCfg) -> Self {
        Gen {
            t,
            cfg,
            prog: Program::default(),
            queue: VecDeque::new(),
            mod_decls: Vec::new(),
            completed: BTreeMap::new(),
            acyclic: BTreeSet::new(),
            clock: 0,
            cur_module: 0,
            cur: None,
            scope: Vec::new(),
            budget: 0,
            head: false,
            rec_head: false,
            edges: BTreeSet::new(),
            at_names: BTreeSet::new(),
            used_paths: BTreeSet::new(),
            prop_name_hint: None,
            used_methods: Vec::new(),
            status_pool: None,
            labels: BTreeSet::new(),
        }
    }

    // -------------------------------------------------------------------------------------
    // Names and visibility

    fn add_module(&mut self) -> usize {
        let i = self.prog.modules.len();
        // Modules other than main may live in sub-directories (imports are relative to the importer).
        let file = if i == 0 {
            "main.oal".to_owned()
        } else {
            let dir = if self.cfg.subdirs { self.t.pick(&["", "", "lib/", "lib/sub/", "other/"]) } else { "" };
            // One module in four is named like a module in another directory (a relative `use`
            // must be resolved against the importing module, not against the main program).
            let twin = if self.cfg.subdirs && i >= 2 && self.t.chance(1, 4) {
                let k = self.t.range(1, i - 1);
                let stem = self.prog.modules[k].file.rsplit('/').next().unwrap().to_owned();
                let path = format!("{dir}{stem}");
                if self.prog.modules.iter().all(|m| m.file != path) {
                    Some(path)
                } else {
                    None
                }
            } else {
                None
            };
            twin.unwrap_or_else(|| format!("{dir}m{i}.oal"))
        };
        self.prog.modules.push(Module { file, stmts: Vec::new() });
        self.mod_decls.push(Vec::new());
        i
    }

    fn name_of(&self, b: Bid) -> &str {
        &self.prog.binders[b].name
    }

    /// Names that module `m` sees at its top level without qualification.
    fn top_names(&self, m: usize) -> BTreeSet<String> {
        let mut s: BTreeSet<String> = self.mod_decls[m].iter().map(|b| self.name_of(*b).to_owned()).collect();
        s.insert("concat".to_owned());
        for i in self.prog.imports.iter().filter(|i| i.module == m && i.qualifier.is_none()) {
            for b in &self.mod_decls[i.target] {
                s.insert(self.name_of(*b).to_owned());
            }
        }
        s
    }

    fn unqualified_importers(&self, m: usize) -> Vec<usize> {
        self.prog.imports.iter().filter(|i| i.target == m && i.qualifier.is_none()).map(|i| i.module).collect()
    }

    /// A name for a new top-level declaration of module `m` that clashes with nothing.
    fn fresh_decl_name(&mut self, m: usize, reference: bool) -> String {
        let mut taken = self.top_names(m);
        for imp in self.unqualified_importers(m) {
            taken.extend(self.top_names(imp));
        }
        // The declaration is about to be mentioned from the current position: a binder in scope
        // with the same name would capture that mention.
        for b in &self.scope {
            taken.insert(self.name_of(*b).to_owned());
        }
        // Qualifiers live in another name space, keywords are not identifiers.
        let pool: &[&str] = if self.cfg.shadowing { SMALL_POOL } else { NAME_POOL };
        for _ in 0..6 {
            let base = self.t.pick(pool);
            let n = if reference { format!("@{base}") } else { base.to_owned() };
            let global_clash = reference && self.cfg.strict && !self.cfg.at_name_clash && self.at_names.contains(&n);
            if !taken.contains(&n) && !global_clash {
                if reference {
                    self.at_names.insert(n.clone());
                }
                return n;
            }
        }
        let mut k = self.prog.binders.len();
        loop {
            let n = if reference { format!("@r{k}") } else { format!("d{k}") };
            if !taken.contains(&n) && !self.at_names.contains(&n) {
                if reference {
                    self.at_names.insert(n.clone());
                }
                return n;
            }
            k += 1;
        }
    }

    fn fresh_local_name(&mut self) -> String {
        if self.cfg.scope_stress {
            return self.t.pick(&["a", "b", "c"]).to_owned();
        }
        let pool: &[&str] = if self.cfg.shadowing { SMALL_POOL } else { NAME_POOL };
        // Local binders may shadow anything, but not a sibling parameter (checked by the caller).
        self.t.pick(pool).to_owned()
    }

    /// Resolves a plain name in the current scope the way the language defines it; returns the binder.
    fn resolve_local(&self, name: &str) -> Option<Bid> {
        self.scope.iter().rev().find(|b| self.name_of(**b) == name).copied()
    }

    /// All (binder, via) pairs visible from the current position, each reachable by its spelling.
    fn visible(&self) -> Vec<(Bid, Option<ImportId>)> {
        let mut out = Vec::new();
        let mut shadowed: BTreeSet<&str> = BTreeSet::new();
        for b in self.scope.iter().rev() {
            let n = self.name_of(*b);
            if shadowed.insert(n) {
                out.push((*b, None));
            }
        }
        for b in &self.mod_decls[self.cur_module] {
            if !shadowed.contains(self.name_of(*b)) {
                out.push((*b, None));
            }
        }
        for (ii, imp) in self.prog.imports.iter().enumerate() {
            if imp.module != self.cur_module {
                continue;
            }
            for b in &self.mod_decls[imp.target] {
                if imp.qualifier.is_some() || !shadowed.contains(self.name_of(*b)) {
                    out.push((*b, Some(ii)));
                }
            }
        }
        out
    }

    fn concat_visible(&self) -> bool {
        self.resolve_local("concat").is_none()
    }

    // -------------------------------------------------------------------------------------
    // Kinds

    fn satisfies(&self, k: &K, w: &Want, binder: Option<Bid>) -> bool {
        match (k, w) {
            (K::S(t, _), Want::Schema(wt)) => wt.map_or(true, |x| x == *t),
            (K::S(t, sh), Want::Plain(wt)) => {
                if t != wt {
                    return false;
                }
                let shape_ok = match sh {
                    Shape::Plain => true,
                    Shape::Op => self.cfg.loose_op_as_plain,
                    Shape::RecVar => self.cfg.loose_rec_as_plain,
                };
                let cycle_ok = match binder {
                    Some(b) if matches!(self.prog.binders[b].kind, BinderKind::Decl { .. }) => self.safe_for_plain(b) || self.cfg.loose_rec_as_plain,
                    _ => true,
                };
                shape_ok && cycle_ok
            }
            (K::P(t), Want::Prop(wt)) => wt.map_or(true, |x| x == *t),
            (K::Content, Want::Content | Want::ContentLike | Want::RangesLike) => true,
            (K::S(_, _), Want::ContentLike | Want::RangesLike) => true,
            (K::Ranges, Want::RangesLike) => true,
            (K::Ranges, Want::ContentLike | Want::Content) => self.cfg.loose_ranges_as_content,
            (K::Transfer, Want::Transfer) => true,
            (K::Text, Want::Text) => true,
            (K::Number, Want::Number | Want::StatusLike) => true,
            (K::Status, Want::StatusLike | Want::Status) => true,
            _ => false,
        }
    }

    /// Acyclic declarations are closed (they mention only acyclic declarations) and no mention
    /// among them may close a cycle, so they form a DAG and are never under evaluation when one
    /// of their users is. Only those may be mentioned from a plain slot (headers, relation URI,
    /// `res`, `concat`).
    fn safe_for_plain(&self, b: Bid) -> bool {
        if !self.acyclic.contains(&b) {
            return false;
        }
        match &self.cur {
            Some(p) if p.acyclic => !self.reaches(b, p.id),
            _ => true,
        }
    }

    fn reaches(&self, from: Bid, to: Bid) -> bool {
        let mut seen = BTreeSet::new();
        let mut stack = vec![from];
        while let Some(x) = stack.pop() {
            if x == to {
                return true;
            }
            if seen.insert(x) {
                for (a, b) in self.edges.range((x, 0)..(x + 1, 0)) {
                    debug_assert_eq!(*a, x);
                    stack.push(*b);
                }
            }
        }
        false
    }

    fn can_be_cut_at(&self, b: Bid) -> bool {
        matches!(self.prog.binders[b].k, K::S(t, _) if t != Tag::Uri) || self.prog.binders[b].k == K::Ranges
    }

    /// A path from `from` to `to` on which no declaration could be cut at (both ends included):
    /// closing it gives a cycle that is certainly ill-formed.
    fn reaches_without_cut(&self, from: Bid, to: Bid) -> bool {
        if self.can_be_cut_at(from) || self.can_be_cut_at(to) {
            return false;
        }
        let mut seen = BTreeSet::new();
        let mut stack = vec![from];
        while let Some(x) = stack.pop() {
            if x == to {
                return true;
            }
            if seen.insert(x) {
                for (_, b) in self.edges.range((x, 0)..(x + 1, 0)) {
                    if !self.can_be_cut_at(*b) {
                        stack.push(*b);
                    }
                }
            }
        }
        false
    }

    /// Whether mentioning declaration `b` here keeps every cycle cut at a schema declaration.
    fn cycle_ok(&mut self, b: Bid, at_head: bool) -> bool {
        let Some(cur) = self.cur.as_ref().map(|p| p.id) else { return true };
        if !self.reaches(b, cur) {
            return true;
        }
        if !self.cfg.cycles {
            return false;
        }
        let referential = matches!(self.prog.binders[b].k, K::S(t, _) if t != Tag::Uri);
        if referential && !at_head {
            self.labels.insert("declaration-cycle");
            return true;
        }
        if referential && self.cfg.loose_head_cycles && self.t.chance(1, 2) {
            self.labels.insert("head-cycle");
            return true;
        }
        // A cycle with nothing to cut at: only through declarations that can never be cut at
        // (functions, contents, properties, transfers, URIs), so that the verdict does not depend
        // on what inference makes of a bare alias cycle.
        if self.cfg.invalid_cycles && !referential && self.reaches_without_cut(b, cur) && self.t.chance(1, 2) {
            self.labels.insert("invalid-cycle");
            return true;
        }
        false
    }

    fn note_edge(&mut self, b: Bid) {
        if let Some(cur) = self.cur.as_ref().map(|p| p.id) {
            self.edges.insert((cur, b));
        }
    }

    fn cur_acyclic(&self) -> bool {
        self.cur.as_ref().map_or(false, |p| p.acyclic)
    }

    fn concrete_kind(&mut self, w: &Want) -> K {
        let tag = |t: &mut Tape| t.pick(&[Tag::Obj, Tag::Prim, Tag::Arr, Tag::Obj, Tag::Any, Tag::Rel, Tag::Uri]);
        match w {
            Want::Schema(None) => {
                let tg = tag(self.t);
                let sh = if tg == Tag::Any || self.t.chance(1, 5) { Shape::Op } else { Shape::Plain };
                K::S(tg, sh)
            }
            Want::Schema(Some(tg)) => {
                let sh = if *tg == Tag::Any || self.t.chance(1, 5) { Shape::Op } else { Shape::Plain };
                K::S(*tg, sh)
            }
            Want::Plain(tg) => K::S(*tg, Shape::Plain),
            Want::Prop(None) => K::P(tag(self.t)),
            Want::Prop(Some(tg)) => K::P(*tg),
            Want::Content => K::Content,
            Want::ContentLike => {
                if self.t.chance(1, 2) {
                    K::Content
                } else {
                    self.concrete_kind(&Want::Schema(None))
                }
            }
            Want::RangesLike => match self.t.choose(3) {
                0 => K::Content,
                1 => K::Ranges,
                _ => self.concrete_kind(&Want::Schema(None)),
            },
            Want::Transfer => K::Transfer,
            Want::Text => K::Text,
            Want::Number => K::Number,
            Want::Status => K::Status,
            Want::StatusLike => {
                if self.t.chance(1, 2) {
                    K::Number
                } else {
                    K::Status
                }
            }
        }
    }

    fn want_of(k: &K) -> Want {
        match k {
            K::S(t, Shape::Plain) => Want::Plain(*t),
            K::S(t, _) => Want::Schema(Some(*t)),
            K::P(t) => Want::Prop(Some(*t)),
            K::Content => Want::Content,
            K::Ranges => Want::RangesLike,
            K::Transfer => Want::Transfer,
            K::Text => Want::Text,
            K::Number => Want::Number,
            K::Status => Want::Status,
            K::F(_, _) => Want::Schema(None),
        }
    }

    // -------------------------------------------------------------------------------------
    // Declarations on demand

    /// Chooses the module for a declaration requested from the current module.
    fn place(&mut self) -> (usize, Option<ImportId>) {
        let m = self.cur_module;
        if self.cfg.max_modules <= 1 || self.t.chance(13, 20) {
            return (m, None);
        }
        // Imports only go from lower to higher module indices, so the import graph is a DAG.
        let existing: Vec<ImportId> = self.prog.imports.iter().enumerate().filter(|(_, i)| i.module == m).map(|(ii, _)| ii).collect();
        if !existing.is_empty() && self.t.chance(3, 5) {
            let ii = self.t.pick(&existing);
            return (self.prog.imports[ii].target, Some(ii));
        }
        let target = if m + 1 < self.prog.modules.len() && self.t.chance(1, 2) {
            self.t.range(m + 1, self.prog.modules.len() - 1)
        } else if self.prog.modules.len() < self.cfg.max_modules {
            self.add_module()
        } else if m + 1 < self.prog.modules.len() {
            self.t.range(m + 1, self.prog.modules.len() - 1)
        } else {
            return (m, None);
        };
        // A new import, qualified or not. An unqualified import must not bring clashing names.
        let qualified = self.t.chance(3, 5) || {
            let mine = self.top_names(m);
            self.mod_decls[target].iter().any(|b| mine.contains(self.name_of(*b)))
                || self.prog.imports.iter().any(|i| i.module == m && i.qualifier.is_none() && i.target == target)
        };
        let qualifier = if qualified {
            let taken: BTreeSet<String> = self.prog.imports.iter().filter(|i| i.module == m).filter_map(|i| i.qualifier.clone()).collect();
            let pool: &[&str] = if self.cfg.shadowing { SMALL_POOL } else { &["m", "lib", "q", "x", "a"] };
            let mut q = self.t.pick(pool).to_owned();
            let mut k = 0;
            while taken.contains(&q) {
                k += 1;
                q = format!("q{k}");
            }
            Some(q)
        } else {
            None
        };
        let file = relative_path(&self.prog.modules[m].file, &self.prog.modules[target].file);
        let path = match self.t.choose(4) {
            0 => format!("./{file}"),
            1 => format!("x/../{file}"),
            _ => file,
        };
        self.prog.imports.push(Import { module: m, target, path, qualifier });
        (target, Some(self.prog.imports.len() - 1))
    }

    fn n_decls(&self) -> usize {
        self.mod_decls.iter().map(|d| d.len()).sum()
    }

    /// Creates a declaration of kind `k` (body generated later) and returns a reference to it.
    fn new_decl(&mut self, k: K, acyclic: bool) -> VarRef {
        let (module, via) = self.place();
        let reference = k.is_schema() && !matches!(k, K::F(_, _)) && self.t.chance(1, 4);
        let name = self.fresh_decl_name(module, reference);
        let id = self.prog.fresh_binder(name, BinderKind::Decl { module }, k);
        self.mod_decls[module].push(id);
        if acyclic {
            self.acyclic.insert(id);
        }
        self.clock += 1;
        self.queue.push_back(Pending { id, module, created_at: self.clock, acyclic });
        if via.is_some() {
            self.labels.insert("cross-module-use");
        }
        VarRef { binder: Some(id), via, free_name: None }
    }

    fn new_function(&mut self, ret: K, acyclic: bool) -> (VarRef, Vec<K>) {
        let n = if self.cfg.scope_stress { self.t.range(2, 3) } else { self.t.range(1, 3) };
        let mut params = Vec::new();
        for _ in 0..n {
            if self.cfg.scope_stress {
                // Few kinds, so that a parameter fits where another function wants an argument.
                params.push(if self.t.chance(3, 4) { K::S(Tag::Prim, Shape::Op) } else { K::S(Tag::Obj, Shape::Op) });
                continue;
            }
            let w = match self.t.choose(8) {
                0 | 1 => Want::Schema(None),
                2 => Want::Plain(Tag::Obj),
                3 => Want::Prop(None),
                4 => Want::Content,
                5 => Want::Text,
                6 => Want::StatusLike,
                _ => Want::Plain(Tag::Uri),
            };
            params.push(self.concrete_kind(&w));
        }
        let k = K::F(params.clone(), Box::new(ret));
        let v = self.new_decl(k, acyclic);
        (v, params)
    }

    // -------------------------------------------------------------------------------------
    // Expressions

    /// Contradictory sources (duplicate names, the same method or status twice) are avoided by
    /// construction in the strict fragment, and mostly avoided otherwise.
    fn avoid_duplicates(&mut self) -> bool {
        self.cfg.strict || self.t.chance(9, 10)
    }

    fn spend(&mut self) -> bool {
        self.budget -= 1;
        self.budget > 0
    }

    pub fn gen(&mut self, w: &Want, depth: usize) -> E {
        let e = self.gen_inner(w, depth);
        self.decorate(e, w)
    }

    fn decorate(&mut self, e: E, w: &Want) -> E {
        let mut e = e;
        if self.t.chance(1, 16) {
            e = E::Paren(Box::new(e));
        }
        // Use-site annotations on something shared are the X4 class: rare in the strict fragment.
        let shy = self.cfg.strict && head_is_reference(&e) && !self.t.chance(1, 6);
        if self.cfg.annotations && !shy && self.t.chance(1, 6) {
            let k = self.ann_for(w);
            let (lines, inline) = match self.t.choose(4) {
                0 => (vec![k], None),
                1 => (vec![], Some(k)),
                2 => {
                    let k2 = self.ann_for(w);
                    (vec![k, k2], None)
                }
                _ => {
                    let k2 = self.ann_for(w);
                    (vec![k], Some(k2))
                }
            };
            self.labels.insert("annotation");
            e = E::Ann(lines, inline, Box::new(e));
            if self.cfg.strict && multi_method(&e) {
                // One operationId cannot name several operations.
                strip_key(&mut e, "operationId");
            }
        }
        e
    }

    fn str_value(&mut self) -> Value {
        json!(self.t.pick(STRINGS))
    }

    /// An annotation map relevant (mostly) to what the position holds.
    pub fn ann_for(&mut self, w: &Want) -> Ann {
        let mut a = Ann::new();
        let n = self.t.range(1, 3);
        for _ in 0..n {
            let general = ["description", "title", "required", "examples"];
            let prim = ["minimum", "maximum", "multipleOf", "example", "pattern", "enum", "format", "minLength", "maxLength"];
            let xfer = ["summary", "tags", "operationId", "description"];
            let key = match w {
                Want::Transfer => self.t.pick(&xfer),
                Want::Schema(Some(Tag::Prim)) | Want::Plain(Tag::Prim) => {
                    if self.t.chance(2, 3) {
                        self.t.pick(&prim)
                    } else {
                        self.t.pick(&general)
                    }
                }
                _ => match self.t.choose(10) {
                    0 => self.t.pick(&prim),
                    1 => self.t.pick(&xfer),
                    2 => "x-unknown",
                    _ => self.t.pick(&general),
                },
            };
            let v = match key {
                "description" | "title" | "summary" | "pattern" | "format" => {
                    if self.t.chance(1, 12) {
                        json!(self.t.choose(100))
                    } else {
                        self.str_value()
                    }
                }
                "operationId" => json!(format!("op{}", self.t.choose(1000))),
                "required" => {
                    if self.t.chance(1, 10) {
                        json!("yes")
                    } else {
                        json!(self.t.chance(1, 2))
                    }
                }
                "examples" => {
                    let n = self.t.range(1, 5);
                    let mut m = serde_json::Map::new();
                    for i in 0..n {
                        let k = format!("{}{}", self.t.pick(&["ex", "e", "sample", "z", "A"]), i);
                        if self.t.chance(1, 10) {
                            m.insert(k, json!(self.t.choose(9)));
                        } else {
                            m.insert(k, json!(format!("examples/{}.json", self.t.choose(50))));
                        }
                    }
                    Value::Object(m)
                }
                "minimum" | "maximum" | "multipleOf" | "example" => match self.t.choose(6) {
                    0 => json!(0),
                    1 => json!(-3),
                    2 => json!(1.5),
                    3 => json!(i64::MAX),
                    4 => self.str_value(),
                    _ => json!(self.t.choose(1000)),
                },
                "minLength" | "maxLength" => match self.t.choose(4) {
                    0 => json!(-1),
                    1 => json!(2.5),
                    _ => json!(self.t.choose(64)),
                },
                "enum" | "tags" => {
                    let n = self.t.range(0, 3);
                    let mut v = Vec::new();
                    for _ in 0..n {
                        if self.t.chance(1, 8) {
                            v.push(json!(self.t.choose(5)));
                        } else {
                            v.push(self.str_value());
                        }
                    }
                    Value::Array(v)
                }
                _ => json!({"k": [1, "two"]}),
            };
            a.insert(key.to_owned(), v);
        }
        a
    }

    fn gen_args(&mut self, params: &[K], cross: bool, depth: usize) -> Vec<E> {
        params
            .iter()
            .map(|p| {
                self.head = true;
                self.rec_head = false;
                if cross && self.t.chance(1, 3) {
                    self.labels.insert("cross-module-other-kind");
                    let w2 = self.t.choose(3);
                    let w2 = [Want::Content, Want::Schema(None), Want::Text][w2].clone();
                    self.gen(&w2, depth.saturating_sub(1))
                } else {
                    self.gen(&Self::want_of(p), depth.saturating_sub(1))
                }
            })
            .collect()
    }

    /// A reference to something visible (or created on demand) that fits the position.
    fn gen_var(&mut self, w: &Want, depth: usize, at_head: bool) -> Option<E> {
        let vis = self.visible();
        let plain = matches!(w, Want::Plain(_));
        // (binder, via, parameter kinds when it is to be applied)
        let mut cands: Vec<(Bid, Option<ImportId>, Option<Vec<K>>)> = Vec::new();
        for (b, via) in &vis {
            let k = self.prog.binders[*b].k.clone();
            if let BinderKind::Rec = self.prog.binders[*b].kind {
                // `rec x x` has no constructor to give it a kind.
                if at_head && !self.cfg.loose_head_cycles {
                    continue;
                }
            }
            if let BinderKind::Param { .. } = self.prog.binders[*b].kind {
                // `rec x p`: the kind of a parameter may be unknown inside its module.
                if at_head && self.rec_head {
                    continue;
                }
            }
            if let BinderKind::Decl { .. } = self.prog.binders[*b].kind {
                if self.cur_acyclic() {
                    // An acyclic declaration mentions only what keeps it acyclic, in every position.
                    if !self.safe_for_plain(*b) {
                        continue;
                    }
                } else if !self.cycle_ok(*b, at_head) {
                    continue;
                }
            }
            match &k {
                K::F(params, ret) => {
                    // `rec x (f ...)`: the result kind of an application may be unknown inside the module.
                    if at_head && self.rec_head {
                        continue;
                    }
                    if depth > 0 && self.satisfies(ret, w, None) {
                        // In a plain slot the function's result must not be on a cycle either.
                        if plain && !self.cfg.loose_rec_as_plain && !self.safe_for_plain(*b) {
                            continue;
                        }
                        cands.push((*b, *via, Some(params.clone())));
                    }
                }
                k => {
                    if self.satisfies(k, w, Some(*b)) {
                        cands.push((*b, *via, None));
                    }
                }
            }
        }
        let can_create = self.n_decls() < self.cfg.max_decls;
        if !cands.is_empty() && (!can_create || self.t.chance(7, 10)) {
            let param_cands: Vec<usize> = cands
                .iter()
                .enumerate()
                .filter(|(_, (b, _, _))| matches!(self.prog.binders[*b].kind, BinderKind::Param { .. }))
                .map(|(i, _)| i)
                .collect();
            let i = if self.cfg.scope_stress && !param_cands.is_empty() && self.t.chance(3, 4) {
                self.t.pick(&param_cands)
            } else {
                self.t.choose(cands.len())
            };
            let (b, via, params) = cands.swap_remove(i);
            match self.prog.binders[b].kind {
                BinderKind::Param { .. } => {
                    self.labels.insert("param-use");
                }
                BinderKind::Rec => {
                    self.labels.insert("rec-var-use");
                }
                BinderKind::Decl { .. } => {
                    if self.prog.binders[b].name.starts_with('@') {
                        self.labels.insert("at-reference");
                    }
                    if via.is_some() {
                        self.labels.insert("cross-module-use");
                    }
                }
            }
            if let BinderKind::Decl { .. } = self.prog.binders[b].kind {
                self.note_edge(b);
            }
            let v = VarRef { binder: Some(b), via, free_name: None };
            return Some(match params {
                Some(ps) => {
                    self.labels.insert("application");
                    let cross = via.is_some() && self.cfg.loose_cross_module_poly;
                    let args = self.gen_args(&ps, cross, depth);
                    E::App(v, args)
                }
                None => E::Var(v),
            });
        }
        if can_create {
            let k = self.concrete_kind(w);
            let acyclic = plain || self.cur_acyclic();
            if depth > 0 && !(at_head && self.rec_head) && self.t.chance(1, 3) && !matches!(k, K::Ranges) {
                let (f, params) = self.new_function(k, acyclic);
                self.note_edge(f.binder.unwrap());
                let cross = f.via.is_some() && self.cfg.loose_cross_module_poly;
                let args = self.gen_args(&params, cross, depth);
                self.labels.insert("application");
                return Some(E::App(f, args));
            }
            let v = self.new_decl(k, acyclic);
            self.note_edge(v.binder.unwrap());
            return Some(E::Var(v));
        }
        None
    }

    fn gen_inner(&mut self, w: &Want, depth: usize) -> E {
        let alive = self.spend();
        let depth = if alive { depth } else { 0 };
        let var_odds = if depth == 0 {
            (1, 2)
        } else if self.cfg.scope_stress && !self.scope.is_empty() {
            (7, 10)
        } else {
            (3, 10)
        };
        let at_head = self.head;
        let at_rec_head = self.rec_head;
        if self.t.chance(var_odds.0, var_odds.1) {
            if let Some(e) = self.gen_var(w, depth, at_head) {
                self.head = false;
                self.rec_head = false;
                return e;
            }
        }
        // Anything below is inside a constructor.
        self.head = false;
        self.rec_head = false;
        if at_head {
            if let Want::Schema(tag) = w {
                return self.gen_schema_at(*tag, depth, true, at_rec_head);
            }
        }
        match w {
            Want::Schema(tag) => self.gen_schema(*tag, depth),
            Want::Plain(tag) => self.gen_plain(*tag, depth),
            Want::Prop(tag) => self.gen_prop(*tag, depth),
            Want::Content => self.gen_content(depth),
            Want::ContentLike => {
                if self.t.chance(1, 2) {
                    self.gen_content(depth)
                } else {
                    self.gen_schema(None, depth)
                }
            }
            Want::RangesLike => match self.t.choose(4) {
                0 => self.gen_content(depth),
                1 => self.gen_schema(None, depth),
                _ if depth > 0 => {
                    self.labels.insert("ranges");
                    let n = self.t.range(2, 4);
                    let outermost = self.status_pool.is_none();
                    if outermost && self.avoid_duplicates() {
                        // One status per content of the (possibly nested) ranges; `None` is the default response.
                        self.status_pool = Some(vec![
                            None,
                            Some(E::Num(200)),
                            Some(E::Num(201)),
                            Some(E::Num(404)),
                            Some(E::Status(4)),
                            Some(E::Status(5)),
                            Some(E::Num(400)),
                            Some(E::Num(301)),
                            Some(E::Num(500)),
                            Some(E::Status(2)),
                            Some(E::Num(418)),
                            Some(E::Num(100)),
                        ]);
                    }
                    let careful = self.status_pool.is_some();
                    let mut ops: Vec<E> = Vec::new();
                    let mut referenced = false;
                    for _ in 0..n {
                        let e = if careful && (referenced || !outermost || self.t.chance(2, 3)) {
                            // A literal content, with a status of its own.
                            let c = self.gen_content(depth - 1);
                            self.decorate(c, &Want::Content)
                        } else {
                            let w = if self.t.chance(3, 4) { Want::Content } else { Want::RangesLike };
                            let e = self.gen(&w, depth - 1);
                            // The status of something declared elsewhere is not known here: at most one such operand,
                            // and a bare schema takes the default slot.
                            if careful && (head_is_reference(&e) || !matches!(e, E::Content(_, _) | E::Op(OpKind::Range, _))) {
                                referenced = true;
                                if let Some(pool) = self.status_pool.as_mut() {
                                    pool.retain(|s| s.is_some());
                                }
                            }
                            e
                        };
                        ops.push(e);
                    }
                    if outermost {
                        self.status_pool = None;
                    }
                    E::Op(OpKind::Range, ops)
                }
                _ => self.gen_content(depth),
            },
            Want::Transfer => self.gen_transfer(depth),
            Want::Text => {
                if self.t.chance(1, 2) {
                    E::Str(self.t.pick(MEDIA).to_owned())
                } else {
                    E::Str(self.t.pick(&["x/y", "a/b", "text/csv", "weird media", ""]).to_owned())
                }
            }
            Want::Number => E::Num(self.status_number()),
            Want::Status => E::Status(self.t.range(1, 5) as u8),
            Want::StatusLike => {
                if self.t.chance(2, 3) {
                    E::Num(self.status_number())
                } else {
                    E::Status(self.t.range(1, 5) as u8)
                }
            }
        }
    }

    fn status_number(&mut self) -> u64 {
        if !self.cfg.strict && self.t.chance(1, 12) {
            self.labels.insert("status-out-of-range");
            return self.t.pick(&[0u64, 99, 600, 1000, 65536, 4294967296, u64::MAX]);
        }
        self.t.pick(&[200u64, 201, 204, 301, 400, 404, 500, 100, 599, 418])
    }

    fn gen_schema(&mut self, tag: Option<Tag>, depth: usize) -> E {
        self.gen_schema_at(tag, depth, false, false)
    }

    fn gen_schema_at(&mut self, tag: Option<Tag>, depth: usize, at_head: bool, at_rec_head: bool) -> E {
        let tag = tag.unwrap_or_else(|| self.t.pick(&[Tag::Prim, Tag::Obj, Tag::Arr, Tag::Prim, Tag::Obj, Tag::Any, Tag::Uri, Tag::Rel]));
        if depth == 0 {
            return match tag {
                Tag::Any => E::Op(OpKind::Any, vec![E::Prim(Prim::Num), E::Prim(Prim::Str)]),
                t => self.gen_plain(t, 0),
            };
        }
        // Operator forms.
        let op = match (tag, self.t.choose(10)) {
            (Tag::Any, _) => Some(OpKind::Any),
            (Tag::Obj, 0 | 1) => Some(OpKind::Join),
            (_, 2) => Some(OpKind::Sum),
            _ => None,
        };
        match op {
            Some(k) => {
                let n = self.t.range(2, 3);
                let ops = (0..n)
                    .map(|_| match k {
                        OpKind::Any => self.gen(&Want::Schema(None), depth - 1),
                        OpKind::Sum => {
                            // `|` takes its kind from its operands: they are as much a head as it is.
                            self.head = at_head;
                            self.rec_head = at_rec_head;
                            self.gen(&Want::Schema(Some(tag)), depth - 1)
                        }
                        _ => self.gen(&Want::Schema(Some(tag)), depth - 1),
                    })
                    .collect();
                self.labels.insert(match k {
                    OpKind::Join => "join",
                    OpKind::Any => "any",
                    _ => "sum",
                });
                E::Op(k, ops)
            }
            None => {
                // A recursive schema, sometimes.
                if tag != Tag::Uri && self.t.chance(1, 10) {
                    return self.gen_rec(tag, depth, false);
                }
                // A recursion variable in scope, if there is one of that tag.
                let recs: Vec<Bid> = self
                    .visible()
                    .into_iter()
                    .filter(|(b, _)| self.prog.binders[*b].k == K::S(tag, Shape::RecVar))
                    .map(|(b, _)| b)
                    .collect();
                if !recs.is_empty() && !at_head && self.t.chance(1, 2) {
                    self.labels.insert("rec-var-use");
                    let b = self.t.pick(&recs);
                    return E::Var(VarRef { binder: Some(b), via: None, free_name: None });
                }
                self.gen_plain(tag, depth)
            }
        }
    }

    fn gen_rec(&mut self, tag: Tag, depth: usize, plain: bool) -> E {
        let mut name = self.fresh_local_name();
        if name == "concat" {
            name = "r".to_owned();
        }
        let b = self.prog.fresh_binder(name, BinderKind::Rec, K::S(tag, Shape::RecVar));
        self.scope.push(b);
        self.labels.insert("rec");
        self.head = true;
        self.rec_head = true;
        let body = if plain || tag == Tag::Any {
            match tag {
                Tag::Any => self.gen(&Want::Schema(Some(Tag::Any)), depth.saturating_sub(1).max(1)),
                t => self.gen(&Want::Plain(t), depth.saturating_sub(1).max(1)),
            }
        } else {
            self.gen(&Want::Schema(Some(tag)), depth.saturating_sub(1).max(1))
        };
        self.scope.pop();
        E::Rec(b, Box::new(body))
    }

    fn gen_plain(&mut self, tag: Tag, depth: usize) -> E {
        match tag {
            Tag::Prim => E::Prim(self.t.pick(&[Prim::Num, Prim::Str, Prim::Bool, Prim::Int, Prim::Str, Prim::Uri])),
            Tag::Obj => {
                if depth > 0 && self.t.chance(1, 12) {
                    return self.gen_rec(Tag::Obj, depth, true);
                }
                let n = if depth == 0 { 0 } else { self.t.range(0, 4) };
                E::Object(self.gen_props(n, depth))
            }
            Tag::Arr => {
                if depth == 0 {
                    return E::Array(Box::new(E::Prim(Prim::Str)));
                }
                if self.t.chance(1, 12) {
                    return self.gen_rec(Tag::Arr, depth, true);
                }
                E::Array(Box::new(self.gen(&Want::Schema(None), depth - 1)))
            }
            Tag::Uri => self.gen_uri(depth),
            Tag::Rel => self.gen_relation(depth),
            Tag::Any => E::Op(OpKind::Any, vec![E::Prim(Prim::Num), E::Object(vec![])]),
        }
    }

    /// Property lists with pairwise distinct names (in strict mode).
    fn gen_props(&mut self, n: usize, depth: usize) -> Vec<E> {
        let mut out = Vec::new();
        let mut pool: Vec<&str> = PROP_NAMES.to_vec();
        let mut seen_binders: Vec<Bid> = Vec::new();
        let distinct = self.avoid_duplicates();
        for _ in 0..n {
            if distinct && !pool.is_empty() {
                let i = self.t.choose(pool.len());
                self.prop_name_hint = Some(pool.remove(i).to_owned());
            }
            let hint = self.prop_name_hint.clone();
            let mut e = self.gen(&Want::Prop(None), depth.saturating_sub(1));
            if distinct {
                // The same declaration (or function) twice in one list means the same name twice.
                if let Some(b) = head_binder(&e) {
                    if seen_binders.contains(&b) {
                        self.prop_name_hint = hint;
                        e = self.gen_prop(None, depth.saturating_sub(1));
                    } else {
                        seen_binders.push(b);
                    }
                }
            }
            out.push(e);
            self.prop_name_hint = None;
        }
        out
    }

    fn gen_prop(&mut self, tag: Option<Tag>, depth: usize) -> E {
        let picked = self.t.pick(PROP_NAMES).to_owned();
        let name = self.prop_name_hint.take().unwrap_or(picked);
        let mark = match self.t.choose(4) {
            0 => Some(true),
            1 => Some(false),
            _ => None,
        };
        let rhs = if depth == 0 {
            match tag {
                Some(t) => self.gen_schema(Some(t), 0),
                None => E::Prim(Prim::Num),
            }
        } else {
            self.gen(&Want::Schema(tag), depth - 1)
        };
        let p = E::Property(name, mark, Box::new(rhs));
        if depth > 0 && self.t.chance(1, 10) {
            self.labels.insert("unary");
            E::Unary(Box::new(p), self.t.chance(1, 2))
        } else {
            p
        }
    }

    fn gen_uri(&mut self, depth: usize) -> E {
        if depth > 0 && self.concat_visible() && self.t.chance(1, 8) {
            self.labels.insert("concat");
            let a = self.gen(&Want::Plain(Tag::Uri), depth - 1);
            let b = self.gen(&Want::Plain(Tag::Uri), depth - 1);
            return E::App(VarRef { binder: None, via: None, free_name: Some("concat".to_owned()) }, vec![a, b]);
        }
        let n = self.t.range(1, 3);
        let mut segs = Vec::new();
        for _ in 0..n {
            match self.t.choose(6) {
                0 if depth > 0 => {
                    self.labels.insert("uri-variable");
                    // Path variables are pairwise distinct inside a path.
                    let k = segs.iter().filter(|s| matches!(s, Seg::Var(_))).count();
                    self.prop_name_hint = Some(["id", "name", "key"][k % 3].to_owned() + if k >= 3 { "2" } else { "" });
                    segs.push(Seg::Var(self.gen(&Want::Prop(Some(Tag::Prim)), depth - 1)));
                    self.prop_name_hint = None;
                }
                1 => segs.push(Seg::Root),
                _ => segs.push(Seg::Lit(self.t.pick(SEGMENTS).to_owned())),
            }
        }
        let params = if depth > 0 && self.t.chance(1, 5) {
            self.labels.insert("uri-query");
            let n = self.t.range(0, 2);
            Some(self.gen_props(n, depth))
        } else {
            None
        };
        E::Uri(segs, params)
    }

    fn gen_content(&mut self, depth: usize) -> E {
        let mut metas = Vec::new();
        // Inside ranges every literal content takes a status nobody else has.
        let forced: Option<Option<E>> = match self.status_pool.as_mut() {
            Some(pool) if !pool.is_empty() => {
                let i = self.t.choose(pool.len());
                Some(pool.remove(i))
            }
            _ => None,
        };
        let in_pool = forced.is_some();
        if let Some(Some(st)) = &forced {
            metas.push((MetaKind::Status, st.clone()));
        }
        // The nested positions (headers, bodies) belong to other responses.
        let saved_pool = self.status_pool.take();
        if depth > 0 {
            let mut kinds = if in_pool { vec![MetaKind::Media, MetaKind::Headers] } else { vec![MetaKind::Media, MetaKind::Status, MetaKind::Headers] };
            let n = self.t.range(0, 3).min(kinds.len());
            for _ in 0..n {
                let i = self.t.choose(kinds.len());
                let k = kinds.remove(i);
                let v = match k {
                    MetaKind::Media => self.gen(&Want::Text, depth - 1),
                    MetaKind::Status => self.gen(&Want::StatusLike, depth - 1),
                    MetaKind::Headers => {
                        self.labels.insert("headers");
                        self.gen(&Want::Plain(Tag::Obj), depth - 1)
                    }
                };
                metas.push((k, v));
            }
        }
        // Without a body the status defaults to 204: inside ranges the "default" slot needs a body.
        let need_body = matches!(forced, Some(None));
        let body = if need_body || self.t.chance(4, 5) {
            Some(Box::new(if depth == 0 { E::Object(vec![]) } else { self.gen(&Want::Schema(None), depth - 1) }))
        } else {
            None
        };
        self.status_pool = saved_pool;
        // A tape-chosen order of the metas.
        if metas.len() > 1 && self.t.chance(1, 2) {
            metas.rotate_left(1);
        }
        E::Content(metas, body)
    }

    fn gen_transfer(&mut self, depth: usize) -> E {
        let n = self.t.range(1, 2);
        let mut methods = Vec::new();
        let distinct = self.avoid_duplicates();
        for _ in 0..n {
            let free: Vec<Method> = ALL_METHODS.iter().copied().filter(|m| !distinct || !self.used_methods.contains(m)).collect();
            if free.is_empty() {
                break;
            }
            let m = self.t.pick(&free);
            if !methods.contains(&m) {
                methods.push(m);
                self.used_methods.push(m);
            }
        }
        if methods.is_empty() {
            methods.push(self.t.pick(&ALL_METHODS));
        }
        // The nested positions belong to other relations.
        let saved_methods = std::mem::take(&mut self.used_methods);
        let saved_pool = self.status_pool.take();
        let params = if depth > 0 && self.t.chance(1, 4) {
            self.labels.insert("xfer-params");
            let n = self.t.range(0, 2);
            Some(self.gen_props(n, depth))
        } else {
            None
        };
        let domain = if depth > 0 && self.t.chance(1, 3) {
            self.labels.insert("request-body");
            Some(Box::new(self.gen(&Want::ContentLike, depth - 1)))
        } else {
            None
        };
        let range = Box::new(self.gen(&Want::RangesLike, depth.saturating_sub(1)));
        self.used_methods = saved_methods;
        self.status_pool = saved_pool;
        E::Transfer { methods, params, domain, range }
    }

    fn gen_relation(&mut self, depth: usize) -> E {
        let uri = self.gen(&Want::Plain(Tag::Uri), depth.saturating_sub(1));
        let n = self.t.range(1, 2);
        let saved = std::mem::take(&mut self.used_methods);
        let distinct = self.avoid_duplicates();
        let mut xfers: Vec<E> = Vec::new();
        for i in 0..n {
            if i == 0 || !distinct {
                let x = self.gen(&Want::Transfer, depth.saturating_sub(1));
                let referenced = head_is_reference(&x);
                xfers.push(x);
                // The methods of a transfer declared elsewhere are not known here: it stays alone.
                if referenced && distinct {
                    break;
                }
            } else {
                let x = self.gen_transfer(depth.saturating_sub(1));
                xfers.push(self.decorate(x, &Want::Transfer));
            }
        }
        self.used_methods = saved;
        E::Relation(Box::new(uri), xfers)
    }

    // -------------------------------------------------------------------------------------
    // Programs

    fn gen_decl_body(&mut self, p: Pending) {
        let k = self.prog.binders[p.id].k.clone();
        self.cur_module = p.module;
        self.scope.clear();
        self.budget = 40;
        let depth = self.cfg.max_depth;
        let id = p.id;
        self.cur = Some(p);
        self.head = true;
        self.rec_head = false;
        let ret_is_prop = matches!(&k, K::P(_)) || matches!(&k, K::F(_, r) if matches!(**r, K::P(_)));
        if ret_is_prop && self.avoid_duplicates() {
            self.prop_name_hint = Some(format!("p{id}"));
        }
        let (params, body) = match &k {
            K::F(pks, ret) => {
                let mut params = Vec::new();
                for pk in pks {
                    let mut name = self.fresh_local_name();
                    let mut tries = 0;
                    while params.iter().any(|b: &Bid| self.name_of(*b) == name) {
                        tries += 1;
                        name = format!("{}{}", self.fresh_local_name(), tries);
                    }
                    let b = self.prog.fresh_binder(name, BinderKind::Param { decl: id }, pk.clone());
                    params.push(b);
                }
                self.scope = params.clone();
                self.labels.insert("function");
                let w = Self::want_of(ret);
                let body = self.gen(&w, depth);
                (params, body)
            }
            K::S(tag, Shape::Op) if *tag != Tag::Any => {
                // An operator result of that tag.
                let kind = if *tag == Tag::Obj && self.t.chance(1, 2) { OpKind::Join } else { OpKind::Sum };
                let n = self.t.range(2, 3);
                let ops = (0..n)
                    .map(|_| {
                        self.head = kind == OpKind::Sum;
                        self.gen(&Want::Schema(Some(*tag)), depth - 1)
                    })
                    .collect();
                (vec![], E::Op(kind, ops))
            }
            k => {
                let w = Self::want_of(k);
                (vec![], self.gen(&w, depth))
            }
        };
        let alias = head_is_reference(&body);
        let anns = if self.cfg.annotations && !(self.cfg.strict && alias) && self.t.chance(1, 4) {
            let w = Self::want_of(match &k {
                K::F(_, r) => r,
                k => k,
            });
            let n = self.t.range(1, 2);
            self.labels.insert("decl-annotation");
            let mut v: Vec<Ann> = (0..n).map(|_| self.ann_for(&w)).collect();
            if self.cfg.strict && (multi_method(&body) || matches!(k, K::Transfer | K::F(_, _))) {
                for a in v.iter_mut() {
                    a.remove("operationId");
                }
                v.retain(|a| !a.is_empty());
            }
            v
        } else {
            vec![]
        };
        // A declaration requested for a range position may have come out as a plain schema:
        // its kind is what its body is (it can then be cut at, if it is on a cycle).
        if k == K::Ranges {
            if let Some(actual) = self.kind_of(&body) {
                self.prog.binders[id].k = actual;
            }
        }
        self.scope.clear();
        self.cur = None;
        self.prop_name_hint = None;
        self.clock += 1;
        self.completed.insert(id, self.clock);
        let m = self.cur_module;
        self.prog.modules[m].stmts.push(Stmt::Let(Decl { id, anns, params, body }));
    }

    /// The kind of a generated expression, read off its head.
    fn kind_of(&self, e: &E) -> Option<K> {
        Some(match e {
            E::Paren(i) | E::Ann(_, _, i) => return self.kind_of(i),
            E::Content(_, _) => K::Content,
            E::Op(OpKind::Range, _) => K::Ranges,
            E::Prim(_) => K::S(Tag::Prim, Shape::Plain),
            E::Object(_) => K::S(Tag::Obj, Shape::Plain),
            E::Array(_) => K::S(Tag::Arr, Shape::Plain),
            E::Uri(_, _) => K::S(Tag::Uri, Shape::Plain),
            E::Relation(_, _) => K::S(Tag::Rel, Shape::Plain),
            E::Op(OpKind::Join, _) => K::S(Tag::Obj, Shape::Op),
            E::Op(OpKind::Any, _) => K::S(Tag::Any, Shape::Op),
            E::Op(OpKind::Sum, ops) => match self.kind_of(ops.first()?)? {
                K::S(t, _) => K::S(t, Shape::Op),
                _ => return None,
            },
            E::Rec(b, _) => match &self.prog.binders[*b].k {
                K::S(t, _) => K::S(*t, Shape::Op),
                _ => return None,
            },
            E::Var(v) => match v.binder {
                Some(b) => self.prog.binders[b].k.clone(),
                None => return None,
            },
            E::App(v, _) => match v.binder {
                Some(b) => match &self.prog.binders[b].k {
                    K::F(_, r) => (**r).clone(),
                    _ => return None,
                },
                None => K::S(Tag::Uri, Shape::Plain),
            },
            _ => return None,
        })
    }

    fn drain_queue(&mut self) {
        while let Some(p) = self.queue.pop_front() {
            self.gen_decl_body(p);
        }
    }

    /// A program whose evaluation is feasible: declarations are inlined at every use and function
    /// bodies at every application, so a generated program can denote values of exponential size
    /// (three functions that each use their parameter four times, applied to each other three
    /// deep, make millions of nodes). Such programs are replaced by a trivial one and counted.
    pub fn program(self) -> (Program, BTreeSet<&'static str>) {
        let (prog, mut labels) = self.program_unbounded();
        if expansion_estimate(&prog) <= EXPANSION_LIMIT {
            return (prog, labels);
        }
        let res = E::Relation(
            Box::new(E::Uri(vec![Seg::Root], None)),
            vec![E::Transfer { methods: vec![Method::Get], params: None, domain: None, range: Box::new(E::Content(Vec::new(), None)) }],
        );
        let small = Program { modules: vec![Module { file: "main.oal".into(), stmts: vec![Stmt::Res(res)] }], imports: Vec::new(), binders: Vec::new() };
        labels.clear();
        labels.insert("fallback:expansion-too-large");
        (small, labels)
    }

    pub fn program_unbounded(mut self) -> (Program, BTreeSet<&'static str>) {
        self.add_module();
        let n_res = self.t.range(1, self.cfg.max_resources.max(1));
        // A few declarations first, so that resources have something to mention.
        let warm = self.t.range(0, 3);
        for _ in 0..warm {
            self.cur_module = 0;
            let w = self.t.pick(&[0usize, 1, 2, 3]);
            let w = [Want::Schema(None), Want::Content, Want::Transfer, Want::Plain(Tag::Obj)][w].clone();
            let k = self.concrete_kind(&w);
            let plain = matches!(w, Want::Plain(_));
            self.new_decl(k, plain);
            self.drain_queue();
        }
        for _ in 0..n_res {
            self.cur_module = 0;
            self.scope.clear();
            self.cur = None;
            self.budget = 60;
            self.head = false;
            let depth = self.cfg.max_depth;
            let e = if self.t.chance(1, 8) {
                self.gen(&Want::Plain(Tag::Uri), depth)
            } else {
                self.gen(&Want::Plain(Tag::Rel), depth)
            };
            self.prog.modules[0].stmts.push(Stmt::Res(e));
            self.drain_queue();
        }
        // One program in six has a twin of one of its resources: the same relation under the path
        // with / without a trailing slash (two different paths that are easy to conflate).
        if self.t.chance(1, 6) {
            let candidates: Vec<E> = self.prog.modules[0]
                .stmts
                .iter()
                .filter_map(|s| match s {
                    Stmt::Res(e @ E::Relation(u, _)) if matches!(**u, E::Uri(_, _)) => Some(e.clone()),
                    _ => None,
                })
                .collect();
            if !candidates.is_empty() {
                let e = self.t.pick_ref(&candidates).clone();
                let mut has_rec = false;
                e.visit(&mut |x| has_rec |= matches!(x, E::Rec(_, _)));
                if let (false, E::Relation(u, xs)) = (has_rec, e) {
                    if let E::Uri(mut segs, q) = *u {
                        let twin = match segs.last() {
                            Some(Seg::Root) if segs.len() >= 2 => {
                                segs.pop();
                                true
                            }
                            Some(Seg::Root) | None => false,
                            Some(_) => {
                                segs.push(Seg::Root);
                                true
                            }
                        };
                        if twin {
                            self.prog.modules[0].stmts.push(Stmt::Res(E::Relation(Box::new(E::Uri(segs, q)), xs)));
                            self.labels.insert("path-twin");
                        }
                    }
                }
            }
        }
        // Import statements, then a tape-chosen statement order per module.
        for (ii, imp) in self.prog.imports.clone().iter().enumerate() {
            self.prog.modules[imp.module].stmts.push(Stmt::Use(ii));
        }
        for m in 0..self.prog.modules.len() {
            let stmts = std::mem::take(&mut self.prog.modules[m].stmts);
            // Resources keep their relative order; everything else moves freely.
            let (res, mut other): (Vec<Stmt>, Vec<Stmt>) = stmts.into_iter().partition(|s| matches!(s, Stmt::Res(_)));
            for i in (1..other.len()).rev() {
                let j = self.t.choose(i + 1);
                other.swap(i, j);
            }
            let mut out = Vec::new();
            let (mut ri, mut oi) = (res.into_iter().peekable(), other.into_iter().peekable());
            loop {
                match (ri.peek().is_some(), oi.peek().is_some()) {
                    (true, true) => {
                        if self.t.chance(1, 2) {
                            out.push(ri.next().unwrap())
                        } else {
                            out.push(oi.next().unwrap())
                        }
                    }
                    (true, false) => out.push(ri.next().unwrap()),
                    (false, true) => out.push(oi.next().unwrap()),
                    (false, false) => break,
                }
            }
            self.prog.modules[m].stmts = out;
        }
        if self.prog.modules.len() > 1 {
            self.labels.insert("multi-module");
        }
        // Kinds that were read off a body mentioning a declaration whose own kind was not yet
        // known: settle them now that every body exists.
        for _ in 0..8 {
            let mut changed = false;
            let pending: Vec<Bid> = self.prog.decls().filter(|(_, d)| self.prog.binders[d.id].k == K::Ranges).map(|(_, d)| d.id).collect();
            for id in pending {
                let actual = self.prog.decl(id).and_then(|(_, d)| self.kind_of(&d.body));
                if let Some(k) = actual {
                    if k != K::Ranges {
                        self.prog.binders[id].k = k;
                        changed = true;
                    }
                }
            }
            if !changed {
                break;
            }
        }
        (self.prog, self.labels)
    }
}

/// The relative path from the directory of file `from` to the file `to`.
pub fn relative_path(from: &str, to: &str) -> String {
    let dir = |p: &str| -> Vec<String> {
        let mut parts: Vec<String> = p.split('/').map(|s| s.to_owned()).collect();
        parts.pop();
        parts
    };
    let (fd, td) = (dir(from), dir(to));
    let mut common = 0;
    while common < fd.len() && common < td.len() && fd[common] == td[common] {
        common += 1;
    }
    let mut out: Vec<String> = Vec::new();
    for _ in common..fd.len() {
        out.push("..".to_owned());
    }
    out.extend(td[common..].iter().cloned());
    out.push(to.rsplit('/').next().unwrap().to_owned());
    out.join("/")
}

/// The binder at the head of an expression (through parentheses, annotations and postfix marks).
pub fn head_binder(e: &E) -> Option<Bid> {
    match e {
        E::Var(v) | E::App(v, _) => v.binder,
        E::Paren(i) | E::Ann(_, _, i) | E::Unary(i, _) => head_binder(i),
        _ => None,
    }
}

fn head_is_reference(e: &E) -> bool {
    matches!(e, E::Var(_) | E::App(_, _)) || matches!(e, E::Paren(i) | E::Ann(_, _, i) | E::Unary(i, _) if head_is_reference(i))
}

fn strip_key(e: &mut E, key: &str) {
    if let E::Ann(lines, inline, inner) = e {
        for l in lines.iter_mut() {
            l.remove(key);
        }
        lines.retain(|l| !l.is_empty());
        if let Some(i) = inline {
            i.remove(key);
            if i.is_empty() {
                *inline = None;
            }
        }
        strip_key(inner, key);
    } else if let E::Paren(inner) = e {
        strip_key(inner, key);
    }
}

fn multi_method(e: &E) -> bool {
    match e {
        E::Transfer { methods, .. } => methods.len() > 1,
        E::Paren(i) | E::Ann(_, _, i) => multi_method(i),
        _ => false,
    }
}

/// A small valid-looking program as text (used by text-level mutation).
pub fn quick_program_text(t: &mut Tape) -> String {
    let cfg = GenCfg { max_modules: 1, max_decls: 5, max_depth: 3, max_resources: 2, ..GenCfg::full() };
    let (prog, _) = Gen::new(t, cfg).program();
    render_plain(&prog)[0].text.clone()
}
