//! G-typed: kind-directed generator of module sets (placeholder until the full generator lands).

use crate::tape::Tape;

/// A small valid-looking program as text.
pub fn quick_program_text(t: &mut Tape) -> String {
    let schemas = ["num", "str", "{ 'a num , 'b [ str ] }", "[ int ]", "uri", "( num | str )", "{ } & { 'c bool }", "num ~ { }"];
    let mut s = String::new();
    let n = t.range(1, 4);
    for i in 0..n {
        s.push_str(&format!("let d{} = {} ;\n", i, t.pick(&schemas)));
    }
    s.push_str(&format!(
        "res /p/{{ 'id num }} ?{{ 'q str }} on get , put {{ 'x! int }} : d0 -> < status = {} , media = \"a/b\" , headers = {{ 'h str }} , {} > :: <> ;\n",
        t.pick(&["200", "404", "5XX"]),
        t.pick(&schemas)
    ));
    s
}
