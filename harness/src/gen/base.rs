//! G-base: base OpenAPI documents over the object model (as JSON values, rendered as YAML).

use crate::tape::Tape;
use serde_json::{json, Map, Value};

const WORDS: &[&str] = &["alpha", "Beta", "gamma delta", "null", "1.0", "x-y", "caf\u{e9}", "", "A: b", "# hash", "~"];

fn word(t: &mut Tape) -> Value {
    json!(t.pick(WORDS))
}

fn simple_schema(t: &mut Tape) -> Value {
    match t.choose(4) {
        0 => json!({"type": "string"}),
        1 => json!({"type": "integer", "minimum": 0}),
        2 => json!({"type": "object", "properties": {"a": {"type": "boolean"}}, "required": ["a"]}),
        _ => json!({"type": "array", "items": {"type": "number"}}),
    }
}

pub struct BaseInfo {
    pub has_paths: bool,
    pub has_schemas: bool,
    pub non_schema_components: usize,
    pub extras: usize,
}

/// A base document; `closed`: the retained parts reference nothing under components.schemas.
pub fn gen_base(t: &mut Tape) -> (Value, BaseInfo) {
    let mut doc = Map::new();
    let mut info_ = BaseInfo { has_paths: false, has_schemas: false, non_schema_components: 0, extras: 0 };
    doc.insert("openapi".into(), json!(t.pick(&["3.0.3", "3.0.0", "3.0.1"])));
    let mut info = Map::new();
    info.insert("title".into(), word(t));
    info.insert("version".into(), json!(t.pick(&["1.0.0", "0.0.1", "2024-01-01", "v2"])));
    if t.chance(1, 2) {
        info.insert("description".into(), word(t));
    }
    if t.chance(1, 3) {
        info.insert("termsOfService".into(), json!("https://example.org/tos"));
    }
    if t.chance(1, 3) {
        info.insert("license".into(), json!({"name": "Apache 2.0", "url": "https://www.apache.org/licenses/LICENSE-2.0.html"}));
    }
    if t.chance(1, 3) {
        info.insert("contact".into(), json!({"name": "Team", "email": "team@example.org", "url": "https://example.org"}));
    }
    if t.chance(1, 4) {
        info.insert("x-info-ext".into(), json!({"k": [1, 2]}));
    }
    doc.insert("info".into(), Value::Object(info));
    // servers: absent, empty, or 1-3 entries with variables
    match t.choose(4) {
        0 => {}
        1 => {
            doc.insert("servers".into(), json!([]));
        }
        _ => {
            let n = t.range(1, 3);
            let mut servers = Vec::new();
            for i in 0..n {
                let mut s = Map::new();
                s.insert("url".into(), json!(format!("https://{{env}}.example.org/v{i}")));
                if t.chance(1, 2) {
                    s.insert("description".into(), word(t));
                }
                if t.chance(1, 2) {
                    s.insert("variables".into(), json!({"env": {"default": "prod", "enum": ["prod", "staging"], "description": "environment"}}));
                    info_.extras += 1;
                }
                servers.push(Value::Object(s));
            }
            doc.insert("servers".into(), Value::Array(servers));
        }
    }
    if t.chance(1, 2) {
        doc.insert("security".into(), json!([{"apiKey": []}, {"bearer": ["read", "write"]}]));
        info_.extras += 1;
    }
    if t.chance(1, 2) {
        let n = t.range(1, 3);
        let tags: Vec<Value> = (0..n)
            .map(|i| {
                let mut m = Map::new();
                m.insert("name".into(), json!(format!("tag{i}")));
                if t.chance(1, 2) {
                    m.insert("description".into(), word(t));
                }
                if t.chance(1, 3) {
                    m.insert("externalDocs".into(), json!({"url": "https://example.org/docs", "description": "more"}));
                }
                Value::Object(m)
            })
            .collect();
        doc.insert("tags".into(), Value::Array(tags));
        info_.extras += 1;
    }
    if t.chance(1, 3) {
        doc.insert("externalDocs".into(), json!({"url": "https://example.org/api", "description": "docs"}));
    }
    if t.chance(1, 4) {
        doc.insert("x-top-level".into(), json!("kept"));
    }
    // paths of its own, to be discarded
    if t.chance(1, 2) {
        info_.has_paths = true;
        doc.insert(
            "paths".into(),
            json!({"/legacy/{id}": {"get": {"operationId": "legacyGet", "parameters": [{"in": "path", "name": "id", "required": true, "schema": {"type": "string"}}], "responses": {"200": {"description": "ok"}}}}}),
        );
    } else {
        // The model the tool reads the base with requires `paths`.
        doc.insert("paths".into(), json!({}));
    }
    // components
    if t.chance(4, 5) {
        let mut comps = Map::new();
        if t.chance(1, 2) {
            info_.has_schemas = true;
            comps.insert("schemas".into(), json!({"LegacyItem": {"type": "object", "properties": {"x": {"type": "string"}}}, "obj1": {"type": "string"}, "hash-feed": {"type": "integer"}}));
        }
        if t.chance(1, 2) {
            comps.insert("securitySchemes".into(), json!({"apiKey": {"type": "apiKey", "in": "header", "name": "X-API-Key"}, "bearer": {"type": "http", "scheme": "bearer", "bearerFormat": "JWT"}}));
            info_.non_schema_components += 1;
        }
        if t.chance(1, 2) {
            comps.insert("responses".into(), json!({"NotFound": {"description": "not found", "content": {"application/json": {"schema": simple_schema(t)}}}, "Empty": {"description": ""}}));
            info_.non_schema_components += 1;
        }
        if t.chance(1, 2) {
            comps.insert("parameters".into(), json!({"limit": {"in": "query", "name": "limit", "schema": {"type": "integer"}, "description": "page size"}, "trace": {"in": "header", "name": "X-Trace", "required": true, "schema": {"type": "string"}}}));
            info_.non_schema_components += 1;
        }
        if t.chance(1, 3) {
            comps.insert("examples".into(), json!({"sample": {"summary": "a sample", "value": {"a": 1, "b": [true, null]}}, "ext": {"externalValue": "https://example.org/e.json"}}));
            info_.non_schema_components += 1;
        }
        if t.chance(1, 3) {
            comps.insert("requestBodies".into(), json!({"Upload": {"description": "upload", "required": true, "content": {"application/octet-stream": {"schema": {"type": "string", "format": "binary"}}}}}));
            info_.non_schema_components += 1;
        }
        if t.chance(1, 3) {
            comps.insert("headers".into(), json!({"RateLimit": {"description": "remaining", "schema": {"type": "integer"}}}));
            info_.non_schema_components += 1;
        }
        if t.chance(1, 4) {
            comps.insert("links".into(), json!({"next": {"operationId": "getNext", "parameters": {"cursor": "$response.body#/next"}}}));
            info_.non_schema_components += 1;
        }
        if t.chance(1, 5) {
            comps.insert("x-components-ext".into(), json!(true));
        }
        doc.insert("components".into(), Value::Object(comps));
    }
    (Value::Object(doc), info_)
}

pub fn to_yaml(v: &Value) -> String {
    serde_yaml::to_string(v).expect("base serialises")
}
