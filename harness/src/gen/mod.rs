pub mod ast;
pub mod base;
pub mod text;
pub mod typed;
