pub mod ast;
pub mod text;
pub mod typed;
