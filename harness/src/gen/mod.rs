pub mod text;
pub mod typed;
