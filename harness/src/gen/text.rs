//! Text-level generators: G-text (weighted Unicode soup), G-tok (token sequences, exhaustive
//! enumeration), G-mut (token-level mutation), nesting templates, and the seed corpus.

use crate::tape::Tape;
use std::sync::OnceLock;

/// The 54 token kinds of the language, each with one or two representative spellings.
pub const TOKEN_KINDS: &[(&str, &[&str])] = &[
    ("Space", &[" ", "\r\n\t"]),
    ("CommentLine", &["// c\n"]),
    ("CommentBlock", &["/* c */"]),
    ("PrimitiveNum", &["num"]),
    ("PrimitiveStr", &["str"]),
    ("PrimitiveUri", &["uri"]),
    ("PrimitiveBool", &["bool"]),
    ("PrimitiveInt", &["int"]),
    ("PathElementRoot", &["/"]),
    ("PathElementSegment", &["/seg", "/a.b~c%20"]),
    ("MethodGet", &["get"]),
    ("MethodPut", &["put"]),
    ("MethodPost", &["post"]),
    ("MethodPatch", &["patch"]),
    ("MethodDelete", &["delete"]),
    ("MethodOptions", &["options"]),
    ("MethodHead", &["head"]),
    ("ContentMedia", &["media"]),
    ("ContentHeaders", &["headers"]),
    ("ContentStatus", &["status"]),
    ("KeywordLet", &["let"]),
    ("KeywordRes", &["res"]),
    ("KeywordUse", &["use"]),
    ("KeywordAs", &["as"]),
    ("KeywordOn", &["on"]),
    ("KeywordRec", &["rec"]),
    ("IdentifierValue", &["a", "b"]),
    ("IdentifierReference", &["@a", "@b"]),
    ("LiteralNumber", &["200", "7"]),
    ("LiteralString", &["\"s\"", "\"main.oal\""]),
    ("LiteralHttpStatus", &["4XX"]),
    ("Property", &["'p", "'q"]),
    ("ControlBraceLeft", &["{"]),
    ("ControlBraceRight", &["}"]),
    ("ControlParenLeft", &["("]),
    ("ControlParenRight", &[")"]),
    ("ControlBracketLeft", &["["]),
    ("ControlBracketRight", &["]"]),
    ("ControlChevronLeft", &["<"]),
    ("ControlChevronRight", &[">"]),
    ("ControlSemicolon", &[";"]),
    ("ControlFullStop", &["."]),
    ("ControlComma", &[","]),
    ("OperatorExclamationMark", &["!"]),
    ("OperatorQuestionMark", &["?"]),
    ("OperatorAmpersand", &["&"]),
    ("OperatorTilde", &["~"]),
    ("OperatorVerticalBar", &["|"]),
    ("OperatorEqual", &["="]),
    ("OperatorColon", &[":"]),
    ("OperatorDoubleColon", &["::"]),
    ("OperatorArrow", &["->"]),
    ("AnnotationLine", &["# description: d\n"]),
    ("AnnotationInline", &["`title: t`"]),
];

/// A reduced alphabet (20 kinds) for longer exhaustive sequences.
pub const REDUCED_KINDS: &[&str] = &[
    "let", "res", "a", "@a", "=", ";", "{", "}", "(", ")", "[", "]", "<", ">", "'p", "num", "/", "on", "get", "->",
];

pub fn pow(base: u64, exp: u32) -> u64 {
    base.pow(exp)
}

/// The number of sequences over an alphabet of `n` symbols with length in `0..=max_len`.
pub fn seq_space(n: u64, max_len: u32) -> u64 {
    (0..=max_len).map(|l| pow(n, l)).sum()
}

/// Decodes the `index`-th sequence (shortest first, then lexicographic).
pub fn decode_seq(mut index: u64, n: u64, max_len: u32) -> Vec<usize> {
    let mut len = 0u32;
    loop {
        let c = pow(n, len);
        if index < c || len == max_len {
            break;
        }
        index -= c;
        len += 1;
    }
    let mut digits = vec![0usize; len as usize];
    for d in digits.iter_mut().rev() {
        *d = (index % n) as usize;
        index /= n;
    }
    digits
}

const ASCII_PUNCT: &[&str] = &[
    "{", "}", "(", ")", "[", "]", "<", ">", ";", ".", ",", "!", "?", "&", "~", "|", "=", ":", "::", "->", "/", "//", "/*", "*/", "#",
    "`", "\"", "'", "@", "-", "_", "$", "%", "*", "\\", "^", "+",
];
const WORDS: &[&str] = &[
    "let", "res", "use", "as", "on", "rec", "num", "str", "uri", "bool", "int", "get", "put", "post", "patch", "delete", "options",
    "head", "media", "headers", "status", "concat", "a", "b", "x", "f", "@r", "'p", "'q", "/seg", "4XX", "2XX", "6XX", "0XX",
];
const UNICODE: &[&str] = &[
    "é", "ß", "Ω", "€", "‰", "中", "😀", "🦀", "\u{301}", "\u{200b}", "\u{feff}", "\u{0}", "\u{7f}", "\u{85}", "\u{2028}", "\u{a0}",
    "\u{10ffff}",
];
const BREAKS: &[&str] = &["\n", "\r\n", "\r", "\t", " ", "  "];

/// G-text: strings over a weighted alphabet.
pub fn gen_text(t: &mut Tape) -> String {
    let len = if t.chance(3, 5) { t.range(0, 40) } else { t.range(0, 400) };
    let mut s = String::new();
    let corpus = corpus();
    for _ in 0..len {
        match t.weighted(&[20, 14, 8, 6, 8, 8, 3, 3]) {
            0 => s.push_str(t.pick(WORDS)),
            1 => s.push_str(t.pick(ASCII_PUNCT)),
            2 => s.push_str(t.pick(BREAKS)),
            3 => {
                // digit runs, up to 40 digits
                let n = if t.chance(1, 3) { t.range(18, 40) } else { t.range(1, 6) };
                for _ in 0..n {
                    s.push((b'0' + t.choose(10) as u8) as char);
                }
            }
            4 => s.push_str(t.pick(UNICODE)),
            5 => {
                // a letter run
                let n = t.range(1, 8);
                for _ in 0..n {
                    let c = t.pick(&['a', 'Z', 'x', '_', '-', '$', '0', 'q', 'E']);
                    s.push(c);
                }
            }
            6 => {
                // splice of valid program text
                if !corpus.is_empty() {
                    let (_, text) = t.pick_ref(corpus);
                    let toks = split_tokens(text);
                    if !toks.is_empty() {
                        let a = t.choose(toks.len());
                        let n = t.range(1, 8).min(toks.len() - a);
                        for tok in &toks[a..a + n] {
                            s.push_str(tok);
                            s.push(' ');
                        }
                    }
                }
            }
            _ => {
                // quoted things, possibly unterminated
                let q = t.pick(&['"', '`']);
                s.push(q);
                let n = t.range(0, 6);
                for _ in 0..n {
                    s.push_str(t.pick(&["a", " ", ":", "{", "é", "😀", "\n", "1", "#"]));
                }
                if t.chance(3, 4) {
                    s.push(q);
                }
            }
        }
        if t.chance(1, 2) {
            s.push(' ');
        }
    }
    s
}

/// A crude tokenizer of our own (not oal's lexer), good enough to find mutation points.
pub fn split_tokens(text: &str) -> Vec<String> {
    let cs: Vec<char> = text.chars().collect();
    let mut out = Vec::new();
    let mut i = 0;
    let is_word = |c: char| c.is_ascii_alphanumeric() || "_$@'-%.~".contains(c);
    while i < cs.len() {
        let c = cs[i];
        if c.is_whitespace() {
            i += 1;
            continue;
        }
        let start = i;
        if c == '"' || c == '`' {
            i += 1;
            while i < cs.len() && cs[i] != c {
                i += 1;
            }
            i = (i + 1).min(cs.len());
        } else if c == '#' || (c == '/' && cs.get(i + 1) == Some(&'/')) {
            while i < cs.len() && cs[i] != '\n' {
                i += 1;
            }
            i = (i + 1).min(cs.len());
        } else if c == '/' && cs.get(i + 1) == Some(&'*') {
            i += 2;
            while i + 1 < cs.len() && !(cs[i] == '*' && cs[i + 1] == '/') {
                i += 1;
            }
            i = (i + 2).min(cs.len());
        } else if c == '/' {
            i += 1;
            while i < cs.len() && (cs[i].is_ascii_alphanumeric() || "%~_.-".contains(cs[i])) {
                i += 1;
            }
        } else if c == ':' && cs.get(i + 1) == Some(&':') {
            i += 2;
        } else if c == '-' && cs.get(i + 1) == Some(&'>') {
            i += 2;
        } else if is_word(c) {
            while i < cs.len() && is_word(cs[i]) && !(cs[i] == '-' && cs.get(i + 1) == Some(&'>')) {
                i += 1;
            }
        } else {
            i += 1;
        }
        out.push(cs[start..i].iter().collect());
    }
    out
}

pub fn join_tokens(toks: &[String]) -> String {
    let mut s = String::new();
    for t in toks {
        s.push_str(t);
        if !t.ends_with('\n') {
            s.push(' ');
        }
    }
    s
}

fn any_token(t: &mut Tape) -> String {
    let (_, sp) = t.pick(TOKEN_KINDS);
    t.pick(sp).to_owned()
}

fn same_class(t: &mut Tape, tok: &str) -> String {
    const CLASSES: &[&[&str]] = &[
        &["num", "str", "uri", "bool", "int"],
        &["get", "put", "post", "patch", "delete", "options", "head"],
        &["media", "headers", "status"],
        &["let", "res", "use", "as", "on", "rec"],
        &["{", "(", "[", "<"],
        &["}", ")", "]", ">"],
        &["&", "~", "|", "::"],
        &["!", "?"],
        &[":", "->", "=", ",", ";", "."],
    ];
    for c in CLASSES {
        if c.contains(&tok) {
            return t.pick(c).to_owned();
        }
    }
    if tok.starts_with('\'') {
        return t.pick(&["'p", "'q", "'$ref", "'123"]).to_owned();
    }
    if tok.starts_with('@') {
        return t.pick(&["@a", "@b", "@r"]).to_owned();
    }
    if tok.chars().all(|c| c.is_ascii_digit()) {
        return t.pick(&["0", "99", "100", "204", "599", "600", "18446744073709551615", "18446744073709551616"]).to_owned();
    }
    if tok.starts_with('/') {
        return t.pick(&["/", "/x", "/a-b"]).to_owned();
    }
    t.pick(&["a", "b", "x", "f", "concat"]).to_owned()
}

/// G-mut: 1–4 token-level mutations.
pub fn mutate_tokens(t: &mut Tape, mut toks: Vec<String>) -> Vec<String> {
    let n = t.range(1, 4);
    for _ in 0..n {
        if toks.is_empty() {
            toks.push(any_token(t));
            continue;
        }
        let i = t.choose(toks.len());
        match t.choose(7) {
            0 => {
                toks.remove(i);
            }
            1 => {
                let x = toks[i].clone();
                toks.insert(i, x);
            }
            2 => {
                let j = t.choose(toks.len());
                toks.swap(i, j);
            }
            3 => {
                let r = same_class(t, &toks[i].clone());
                toks[i] = r;
            }
            4 => {
                toks[i] = any_token(t);
            }
            5 => {
                let x = any_token(t);
                toks.insert(i, x);
            }
            _ => {
                // move a token elsewhere
                let x = toks.remove(i);
                let j = t.choose(toks.len() + 1);
                toks.insert(j, x);
            }
        }
    }
    toks
}

/// Nesting templates: a program with one construct nested `depth` times.
pub const TEMPLATES: usize = 8;
/// Variants of a template: 0 well formed; 1 innermost expression missing; 2 no closing brackets;
/// 3 wrong innermost closing bracket; 4 half of the closing brackets missing.
pub const VARIANTS: usize = 5;

pub fn nested_template(which: usize, depth: usize) -> String {
    nested_template_variant(which, depth, 0)
}

pub fn nested_template_variant(which: usize, depth: usize, variant: usize) -> String {
    let (open, close, core, frame): (&str, &str, &str, (&str, &str)) = match which % TEMPLATES {
        0 => ("( ", " )", "num", ("let a = ", ";")),
        1 => ("[ ", " ]", "num", ("let a = ", ";")),
        2 => ("{ 'p ", " }", "num", ("let a = ", ";")),
        3 => ("< ", " >", "num", ("let a = ", ";")),
        4 => ("/{ 'p ", " }", "num", ("let a = ", ";")),
        5 => ("f ( ", " )", "num", ("let f x = x; let a = ", ";")),
        6 => ("/ on get -> ", "", "<>", ("res ", ";")),
        _ => ("rec x [ ", " ]", "x", ("let a = rec x ", ";")),
    };
    let mut s = String::from(frame.0);
    for _ in 0..depth {
        s.push_str(open);
    }
    if variant != 1 {
        s.push_str(core);
    }
    let closers = match variant % VARIANTS {
        2 => 0,
        4 => depth / 2,
        _ => depth,
    };
    for k in 0..closers {
        if variant == 3 && k == 0 {
            s.push_str(if close.trim() == ")" { " ]" } else { " )" });
        } else {
            s.push_str(close);
        }
    }
    s.push_str(frame.1);
    s.push('\n');
    s
}

static CORPUS: OnceLock<Vec<(String, String)>> = OnceLock::new();

/// The seed corpus: `/verif/corpus/*.oal`, sorted by name.
pub fn corpus() -> &'static [(String, String)] {
    CORPUS.get_or_init(|| {
        let dir = std::path::Path::new(&crate::engine::verif_dir()).join("corpus");
        let mut v = Vec::new();
        if let Ok(rd) = std::fs::read_dir(&dir) {
            for e in rd.flatten() {
                let p = e.path();
                if p.extension().and_then(|x| x.to_str()) == Some("oal") {
                    if let Ok(text) = std::fs::read_to_string(&p) {
                        v.push((p.file_name().unwrap().to_string_lossy().to_string(), text));
                    }
                }
            }
        }
        v.sort();
        v
    })
}

#[cfg(test)]
mod tests {
    use super::*;
    #[test]
    fn fifty_four_kinds() {
        assert_eq!(TOKEN_KINDS.len(), 54);
    }
    #[test]
    fn seq_decoding() {
        assert_eq!(seq_space(3, 2), 13);
        assert_eq!(decode_seq(0, 3, 2), Vec::<usize>::new());
        assert_eq!(decode_seq(1, 3, 2), vec![0]);
        assert_eq!(decode_seq(4, 3, 2), vec![0, 0]);
        assert_eq!(decode_seq(12, 3, 2), vec![2, 2]);
    }
}
