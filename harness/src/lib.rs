#![allow(dead_code)]
//! The verification harness for oxlip-lang/oal as a library (the `oalverif` binary and the fuzz
//! targets under /verif/fuzz share it).

pub mod dev;
pub mod docq;
pub mod engine;
pub mod fuzzing;
pub mod gen;
pub mod lspc;
pub mod lspcheck;
pub mod minimize;
pub mod oal;
pub mod props;
pub mod refsem;
pub mod rewrite;
pub mod tape;
pub mod validate;
