//! Helpers shared by the language-server checks (C15, C17, C18): a workspace on disk with the
//! generated modules, position arithmetic through R-pos, and parsing of LSP answers.

use crate::gen::ast::Rendered;
use crate::lspc::{Lsp, LspError, Scratch};
use crate::props::c16::{ref_offset_to_pos, ref_pos_to_offset};
use serde_json::Value;
use std::collections::BTreeMap;

pub struct Workspace {
    pub dir: Scratch,
    pub main: String,
    /// file name -> text on disk
    pub files: BTreeMap<String, String>,
}

impl Workspace {
    pub fn create(tag: &str, files: &BTreeMap<String, String>, main: &str) -> Workspace {
        let dir = Scratch::new(tag);
        dir.write("oal.toml", &format!("[api]\nmain = \"{main}\"\ntarget = \"out.yaml\"\n"));
        for (n, t) in files {
            dir.write(n, t);
        }
        Workspace { dir, main: main.to_owned(), files: files.clone() }
    }

    pub fn from_rendered(tag: &str, rendered: &[Rendered]) -> Workspace {
        let mut files = BTreeMap::new();
        for r in rendered {
            files.insert(r.file.clone(), r.text.clone());
        }
        Workspace::create(tag, &files, &rendered[0].file)
    }

    pub fn uri(&self, file: &str) -> String {
        self.dir.uri(file)
    }

    pub fn file_of_uri(&self, uri: &str) -> Option<String> {
        let prefix = format!("file://{}/", self.dir.path.display());
        uri.strip_prefix(&prefix).map(|s| s.to_owned())
    }

    pub fn start(&self) -> Result<Lsp, LspError> {
        Lsp::start(&self.dir.path)
    }
}

pub type Pos = (u32, u32);
pub type Rng = (Pos, Pos);

pub fn pos_of(text: &str, offset: usize) -> Pos {
    ref_offset_to_pos(text, offset)
}

pub fn offset_of(text: &str, pos: Pos) -> Option<usize> {
    ref_pos_to_offset(text, pos)
}

pub fn range_of(text: &str, span: (usize, usize)) -> Rng {
    (pos_of(text, span.0), pos_of(text, span.1))
}

pub fn parse_pos(v: &Value) -> Option<Pos> {
    Some((v.get("line")?.as_u64()? as u32, v.get("character")?.as_u64()? as u32))
}

pub fn parse_range(v: &Value) -> Option<Rng> {
    Some((parse_pos(v.get("start")?)?, parse_pos(v.get("end")?)?))
}

/// A location answer: (uri, range).
pub fn parse_location(v: &Value) -> Option<(String, Rng)> {
    Some((v.get("uri")?.as_str()?.to_owned(), parse_range(v.get("range")?)?))
}

/// The answer to textDocument/definition as a list of locations.
pub fn definition_locations(v: &Value) -> Vec<(String, Rng)> {
    match v {
        Value::Null => vec![],
        Value::Array(a) => a.iter().filter_map(parse_location).collect(),
        obj => parse_location(obj).into_iter().collect(),
    }
}

pub fn reference_locations(v: &Value) -> Vec<(String, Rng)> {
    match v {
        Value::Array(a) => a.iter().filter_map(parse_location).collect(),
        _ => vec![],
    }
}

/// Applies LSP text edits (ranges in the coordinates of `text`) client-side.
pub fn apply_edits(text: &str, edits: &[(Rng, String)]) -> Result<String, String> {
    let mut spans: Vec<(usize, usize, &str)> = Vec::new();
    for (r, t) in edits {
        let a = offset_of(text, r.0).ok_or_else(|| format!("edit start {:?} is inside a surrogate pair", r.0))?;
        let b = offset_of(text, r.1).ok_or_else(|| format!("edit end {:?} is inside a surrogate pair", r.1))?;
        if a > b {
            return Err(format!("edit range {r:?} ends before it starts"));
        }
        spans.push((a, b, t.as_str()));
    }
    spans.sort();
    for w in spans.windows(2) {
        if w[0].1 > w[1].0 {
            return Err(format!("edits overlap: {}..{} and {}..{}", w[0].0, w[0].1, w[1].0, w[1].1));
        }
    }
    let mut out = text.to_owned();
    for (a, b, t) in spans.iter().rev() {
        out.replace_range(*a..*b, t);
    }
    Ok(out)
}

/// Offsets of `text` that are usable as an edit boundary: character boundaries that are not
/// between a CR and an LF and whose neighbourhood cannot form a new CRLF at a join.
fn cut_points(text: &str) -> Vec<usize> {
    let b = text.as_bytes();
    (0..=text.len())
        .filter(|&o| text.is_char_boundary(o) && !(o > 0 && b[o - 1] == b'\r') && !(o < text.len() && b[o] == b'\n'))
        .collect()
}

/// Two ranged content changes for ONE didChange notification, in document order, that turn
/// `from` into `to` when applied one after the other as the protocol says (the second range refers
/// to the text the first change leaves). `pick` chooses the cut points (0..=65535 each).
pub fn two_edits(from: &str, to: &str, pick: (u32, u32)) -> Vec<(Rng, String)> {
    let (cf, ct) = (cut_points(from), cut_points(to));
    let at = |v: &Vec<usize>, p: u32| v[((p as u64 * v.len() as u64) >> 16) as usize % v.len()];
    let (a, c) = (at(&cf, pick.0 & 0xffff), at(&ct, pick.1 & 0xffff));
    let first = (range_of(from, (0, a)), to[..c].to_owned());
    let mid = format!("{}{}", &to[..c], &from[a..]);
    let second = (range_of(&mid, (c, mid.len())), to[c..].to_owned());
    vec![first, second]
}
