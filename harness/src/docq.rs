//! R-eq: when are two OpenAPI documents "the same".
//!
//! 1. JSON objects are unordered maps, arrays are ordered.
//! 2. Serialisation defaults that carry no information are dropped on both sides (null, false,
//!    empty arrays and maps, default parameter styles).
//! 3. Implicit components are transparent: a `$ref` to `hash-…` (emitted) or `mu-…` (expected) is
//!    replaced by the component it points to, coinductively. Two documents are equal iff the
//!    regular trees obtained by unfolding implicit components are equal.
//! 4. Named components are compared by name and content.

use serde_json::{Map, Value};
use std::collections::BTreeSet;

pub fn normalise(v: &Value) -> Value {
    match v {
        Value::Object(m) => {
            let mut out = Map::new();
            for (k, x) in m {
                let n = normalise(x);
                let drop = match &n {
                    Value::Null => true,
                    Value::Bool(false) => true,
                    Value::Array(a) => a.is_empty(),
                    Value::Object(o) => o.is_empty() && k != "schema" && k != "items",
                    Value::String(s) => k == "style" && (s == "form" || s == "simple"),
                    _ => false,
                };
                if !drop {
                    out.insert(k.clone(), n);
                }
            }
            Value::Object(out)
        }
        Value::Array(a) => Value::Array(a.iter().map(normalise).collect()),
        other => other.clone(),
    }
}

fn ref_target(v: &Value) -> Option<&str> {
    let o = v.as_object()?;
    if o.len() != 1 {
        return None;
    }
    o.get("$ref")?.as_str()?.strip_prefix("#/components/schemas/")
}

pub fn is_implicit(name: &str) -> bool {
    name.starts_with("hash-") || name.starts_with("mu-")
}

pub struct Docs<'a> {
    pub a: &'a Value,
    pub b: &'a Value,
    assumed: BTreeSet<(String, String)>,
}

fn schemas(doc: &Value) -> Option<&Map<String, Value>> {
    doc.get("components")?.get("schemas")?.as_object()
}

/// Follows implicit references; returns the node reached, the last implicit name passed, and
/// whether the chain runs in a circle without ever reaching a schema (`let x = x;` is accepted and
/// makes a component that refers to itself).
fn deref<'v>(doc: &'v Value, mut v: &'v Value, side: &str) -> Result<(&'v Value, Option<String>, bool), String> {
    let mut last = None;
    let mut seen: BTreeSet<&str> = BTreeSet::new();
    while let Some(name) = ref_target(v) {
        if !is_implicit(name) {
            break;
        }
        if !seen.insert(name) {
            return Ok((v, last, true));
        }
        let target = schemas(doc).and_then(|s| s.get(name)).ok_or_else(|| format!("{side}: dangling reference to implicit component {name}"))?;
        last = Some(name.to_owned());
        v = target;
    }
    Ok((v, last, false))
}

fn num_eq(a: &serde_json::Number, b: &serde_json::Number) -> bool {
    if let (Some(x), Some(y)) = (a.as_i64(), b.as_i64()) {
        return x == y;
    }
    if let (Some(x), Some(y)) = (a.as_u64(), b.as_u64()) {
        return x == y;
    }
    match (a.as_f64(), b.as_f64()) {
        (Some(x), Some(y)) => x == y,
        _ => false,
    }
}

impl<'a> Docs<'a> {
    pub fn new(a: &'a Value, b: &'a Value) -> Self {
        Docs { a, b, assumed: BTreeSet::new() }
    }

    pub fn eq(&mut self, x: &Value, y: &Value, path: &str) -> Result<(), String> {
        let (x, xn, xloop) = deref(self.a, x, "actual")?;
        let (y, yn, yloop) = deref(self.b, y, "expected")?;
        match (xloop, yloop) {
            (true, true) => return Ok(()),
            (true, false) => return Err(format!("{path}: the emitted document has a circle of implicit references that never reaches a schema, the expected one has {}", brief(y))),
            (false, true) => return Err(format!("{path}: the expected document has a circle of implicit references that never reaches a schema, the emitted one has {}", brief(x))),
            (false, false) => {}
        }
        if let (Some(xn), Some(yn)) = (&xn, &yn) {
            // Coinduction: a pair of components already under comparison is assumed equal.
            if !self.assumed.insert((xn.clone(), yn.clone())) {
                return Ok(());
            }
        }
        match (x, y) {
            (Value::Object(xm), Value::Object(ym)) => {
                for (k, xv) in xm {
                    match ym.get(k) {
                        Some(yv) => self.eq(xv, yv, &format!("{path}/{k}"))?,
                        None => return Err(format!("{path}: the emitted document has `{k}` ({}), the expected one has not", brief(xv))),
                    }
                }
                for (k, yv) in ym {
                    if !xm.contains_key(k) {
                        return Err(format!("{path}: `{k}` is expected ({}) but missing from the emitted document", brief(yv)));
                    }
                }
                Ok(())
            }
            (Value::Array(xa), Value::Array(ya)) => {
                if xa.len() != ya.len() {
                    return Err(format!("{path}: {} elements emitted, {} expected: {} vs {}", xa.len(), ya.len(), brief(x), brief(y)));
                }
                for (i, (xv, yv)) in xa.iter().zip(ya).enumerate() {
                    self.eq(xv, yv, &format!("{path}/{i}"))?;
                }
                Ok(())
            }
            (Value::Number(p), Value::Number(q)) => {
                if num_eq(p, q) {
                    Ok(())
                } else {
                    Err(format!("{path}: emitted {p}, expected {q}"))
                }
            }
            (p, q) => {
                if p == q {
                    Ok(())
                } else {
                    Err(format!("{path}: emitted {}, expected {}", brief(p), brief(q)))
                }
            }
        }
    }
}

fn brief(v: &Value) -> String {
    let s = v.to_string();
    if s.chars().count() > 160 {
        format!("{}…", s.chars().take(160).collect::<String>())
    } else {
        s
    }
}

/// Named components referenced (transitively) from the paths of the document.
fn referenced_named(doc: &Value) -> BTreeSet<String> {
    fn walk(doc: &Value, v: &Value, out: &mut BTreeSet<String>, seen: &mut BTreeSet<String>) {
        if let Some(name) = ref_target(v) {
            if seen.insert(name.to_owned()) {
                if !is_implicit(name) {
                    out.insert(name.to_owned());
                }
                if let Some(t) = schemas(doc).and_then(|s| s.get(name)) {
                    walk(doc, t, out, seen);
                }
            }
            return;
        }
        match v {
            Value::Object(m) => m.values().for_each(|x| walk(doc, x, out, seen)),
            Value::Array(a) => a.iter().for_each(|x| walk(doc, x, out, seen)),
            _ => {}
        }
    }
    let mut out = BTreeSet::new();
    let mut seen = BTreeSet::new();
    if let Some(p) = doc.get("paths") {
        walk(doc, p, &mut out, &mut seen);
    }
    out
}

/// Compares the emitted document `actual` with `expected` (both already as JSON values).
/// `rename`: a named component of `actual` that corresponds to another name in `expected`
/// (used by the rename check; `None` otherwise).
pub fn equivalent(actual: &Value, expected: &Value) -> Result<(), String> {
    let a = normalise(actual);
    let b = normalise(expected);
    let empty = Value::Object(Map::new());
    let mut d = Docs::new(&a, &b);
    let ap = a.get("paths").unwrap_or(&empty);
    let bp = b.get("paths").unwrap_or(&empty);
    d.eq(ap, bp, "paths")?;
    // Named components.
    let none = Map::new();
    let asch = schemas(&a).unwrap_or(&none);
    let bsch = schemas(&b).unwrap_or(&none);
    let a_named: BTreeSet<&String> = asch.keys().filter(|k| !is_implicit(k)).collect();
    let b_named: BTreeSet<&String> = bsch.keys().filter(|k| !is_implicit(k)).collect();
    let a_refd = referenced_named(&a);
    let b_refd = referenced_named(&b);
    for n in a_named.union(&b_named) {
        match (asch.get(*n), bsch.get(*n)) {
            (Some(x), Some(y)) => d.eq(x, y, &format!("components/schemas/{n}"))?,
            (None, Some(_)) => {
                if b_refd.contains(*n) {
                    return Err(format!("components/schemas/{n}: referenced named component missing from the emitted document"));
                }
            }
            (Some(_), None) => {
                if a_refd.contains(*n) {
                    return Err(format!("components/schemas/{n}: the emitted document references a named component the program does not denote"));
                }
            }
            (None, None) => unreachable!(),
        }
    }
    // Everything outside paths and components.schemas.
    for k in ["openapi", "info", "servers"] {
        if let (Some(x), Some(y)) = (a.get(k), b.get(k)) {
            d.eq(x, y, k)?;
        }
    }
    Ok(())
}
