//! Helpers that drive the oal pipeline in-process through its public API only.

use oal_compiler::errors::{Error as CError, Kind};
use oal_compiler::module::{Loader, ModuleSet};
use oal_compiler::tree::Tree;
use oal_model::locator::Locator;
use oal_model::span::Span;
use std::collections::BTreeMap;

pub const BASE_URL: &str = "file:///w/";

/// A set of source files, keyed by file name relative to the workspace root.
#[derive(Clone, Debug, Default, PartialEq, Eq, Hash, serde::Serialize, serde::Deserialize)]
pub struct Sources {
    pub main: String,
    pub files: BTreeMap<String, String>,
}

impl Sources {
    pub fn single(text: &str) -> Self {
        let mut files = BTreeMap::new();
        files.insert("main.oal".to_owned(), text.to_owned());
        Sources {
            main: "main.oal".to_owned(),
            files,
        }
    }

    pub fn to_json(&self) -> serde_json::Value {
        serde_json::to_value(self).unwrap()
    }

    pub fn hash64(&self) -> u64 {
        use std::hash::{Hash, Hasher};
        let mut h = std::collections::hash_map::DefaultHasher::new();
        self.hash(&mut h);
        h.finish()
    }
}

pub fn locator(name: &str) -> Locator {
    Locator::try_from(format!("{BASE_URL}{name}").as_str()).expect("valid locator")
}

pub fn name_of(loc: &Locator) -> String {
    let raw = loc.url().as_str().strip_prefix(BASE_URL).unwrap_or(loc.url().as_str());
    // File names with blanks or non-ASCII letters are percent-encoded in the URL.
    let b = raw.as_bytes();
    let mut out = Vec::with_capacity(b.len());
    let mut i = 0;
    while i < b.len() {
        if b[i] == b'%' && i + 3 <= b.len() && raw.is_char_boundary(i + 1) && raw.is_char_boundary(i + 3) {
            if let Ok(v) = u8::from_str_radix(&raw[i + 1..i + 3], 16) {
                out.push(v);
                i += 3;
                continue;
            }
        }
        out.push(b[i]);
        i += 1;
    }
    String::from_utf8(out).unwrap_or_else(|_| raw.to_owned())
}

/// What went wrong while loading, by phase.
#[derive(Debug)]
pub enum LoadError {
    /// An error raised by the loader or by `compile` (has a `Kind`).
    Compiler(CError),
    /// Lexical or syntax errors in the given module.
    Syntax(Locator, Vec<oal_syntax::errors::Error>),
    /// The main module itself is missing.
    Missing(Locator),
}

impl From<CError> for LoadError {
    fn from(e: CError) -> Self {
        LoadError::Compiler(e)
    }
}

impl LoadError {
    pub fn kind_name(&self) -> String {
        match self {
            LoadError::Compiler(e) => kind_name(&e.kind).to_owned(),
            LoadError::Syntax(_, _) => "Syntax".to_owned(),
            LoadError::Missing(_) => "Missing".to_owned(),
        }
    }

    pub fn spans(&self) -> Vec<Span> {
        match self {
            LoadError::Compiler(e) => e.span().cloned().into_iter().collect(),
            LoadError::Syntax(_, errs) => errs
                .iter()
                .filter_map(|e| match e {
                    oal_syntax::errors::Error::Grammar(g) => Some(g.span()),
                    oal_syntax::errors::Error::Lexicon(l) => Some(l.span()),
                    _ => None,
                })
                .collect(),
            LoadError::Missing(_) => vec![],
        }
    }
}

pub fn kind_name(k: &Kind) -> &'static str {
    match k {
        Kind::Locator(_) => "Locator",
        Kind::Yaml(_) => "Yaml",
        Kind::Syntax(_) => "Syntax",
        Kind::NotInScope => "NotInScope",
        Kind::InvalidType => "InvalidType",
        Kind::CycleDetected => "CycleDetected",
        Kind::InvalidLiteral => "InvalidLiteral",
        Kind::InvalidIdentifier => "InvalidIdentifier",
        Kind::InvalidModule(_) => "InvalidModule",
    }
}

/// One call observed on the loader.
#[derive(Clone, Debug, PartialEq, Eq)]
pub enum Event {
    IsValid(String, bool),
    Load(String),
    Parse(String),
    Compile(String),
}

/// An in-memory loader over a `Sources` value, wrapping the real `parse` and `compile`,
/// recording every call.
pub struct MemLoader<'a> {
    pub sources: &'a Sources,
    pub log: Vec<Event>,
    /// Carry on with the tree of a module that has lexical errors only, as the language server does.
    pub lenient: bool,
}

impl<'a> MemLoader<'a> {
    pub fn new(sources: &'a Sources) -> Self {
        MemLoader {
            sources,
            log: Vec::new(),
            lenient: false,
        }
    }
}

impl Loader<LoadError> for MemLoader<'_> {
    fn is_valid(&mut self, loc: &Locator) -> bool {
        let ok = self.sources.files.contains_key(&name_of(loc));
        self.log.push(Event::IsValid(name_of(loc), ok));
        ok
    }

    fn load(&mut self, loc: &Locator) -> Result<String, LoadError> {
        self.log.push(Event::Load(name_of(loc)));
        self.sources
            .files
            .get(&name_of(loc))
            .cloned()
            .ok_or_else(|| LoadError::Missing(loc.clone()))
    }

    fn parse(&mut self, loc: Locator, input: String) -> Result<Tree, LoadError> {
        self.log.push(Event::Parse(name_of(&loc)));
        let (tree, errs) = oal_syntax::parse(loc.clone(), input);
        if !errs.is_empty() && !(self.lenient && tree.is_some()) {
            return Err(LoadError::Syntax(loc, errs));
        }
        tree.ok_or_else(|| LoadError::Syntax(loc, Vec::new()))
    }

    fn compile(&mut self, mods: &ModuleSet, loc: &Locator) -> Result<(), LoadError> {
        self.log.push(Event::Compile(name_of(loc)));
        oal_compiler::compile::compile(mods, loc)?;
        Ok(())
    }
}

/// Loads and compiles the sources (front end).
pub fn load(sources: &Sources) -> Result<ModuleSet, LoadError> {
    let mut loader = MemLoader::new(sources);
    oal_compiler::module::load(&mut loader, &locator(&sources.main))
}

/// Loads and compiles the sources the way the language server does: a module whose only errors
/// are lexical is used without the skipped characters.
pub fn load_lenient(sources: &Sources) -> Result<ModuleSet, LoadError> {
    let mut loader = MemLoader::new(sources);
    loader.lenient = true;
    oal_compiler::module::load(&mut loader, &locator(&sources.main))
}

/// The result of the back end on an accepted module set.
pub enum BackEnd {
    Document(openapiv3::OpenAPI),
    EvalError(CError),
}

/// Evaluates and builds the OpenAPI document (back end).
pub fn back_end(mods: &ModuleSet, base: Option<openapiv3::OpenAPI>) -> BackEnd {
    match oal_compiler::eval::eval(mods) {
        Ok(spec) => {
            let mut builder = oal_openapi::Builder::new(spec);
            if let Some(base) = base {
                builder = builder.with_base(base);
            }
            BackEnd::Document(builder.into_openapi())
        }
        Err(e) => BackEnd::EvalError(e),
    }
}

/// The outcome of the whole pipeline.
pub enum Outcome {
    Rejected(LoadError),
    EvalError(CError),
    Document { yaml: String, api: openapiv3::OpenAPI },
}

impl Outcome {
    pub fn verdict(&self) -> String {
        match self {
            Outcome::Rejected(e) => format!("rejected:{}", e.kind_name()),
            Outcome::EvalError(e) => format!("eval-error:{}", kind_name(&e.kind)),
            Outcome::Document { .. } => "document".to_owned(),
        }
    }
}

pub fn pipeline(sources: &Sources, base: Option<openapiv3::OpenAPI>) -> Outcome {
    match load(sources) {
        Err(e) => Outcome::Rejected(e),
        Ok(mods) => match back_end(&mods, base) {
            BackEnd::EvalError(e) => Outcome::EvalError(e),
            BackEnd::Document(api) => {
                let yaml = serde_yaml::to_string(&api).expect("document serialises");
                Outcome::Document { yaml, api }
            }
        },
    }
}

/// Parses YAML text into a JSON value (generic, not through the OpenAPI model).
pub fn yaml_to_json(yaml: &str) -> Result<serde_json::Value, String> {
    let v: serde_yaml::Value = serde_yaml::from_str(yaml).map_err(|e| e.to_string())?;
    yaml_value_to_json(&v)
}

pub fn yaml_value_to_json(v: &serde_yaml::Value) -> Result<serde_json::Value, String> {
    use serde_json::Value as J;
    use serde_yaml::Value as Y;
    Ok(match v {
        Y::Null => J::Null,
        Y::Bool(b) => J::Bool(*b),
        Y::Number(n) => {
            if let Some(i) = n.as_i64() {
                J::from(i)
            } else if let Some(u) = n.as_u64() {
                J::from(u)
            } else {
                let f = n.as_f64().unwrap();
                match serde_json::Number::from_f64(f) {
                    Some(n) => J::Number(n),
                    // NaN and infinities have no JSON form; keep them recognisable.
                    None => J::String(format!("<<float:{f}>>")),
                }
            }
        }
        Y::String(s) => J::String(s.clone()),
        Y::Sequence(s) => J::Array(
            s.iter()
                .map(yaml_value_to_json)
                .collect::<Result<Vec<_>, _>>()?,
        ),
        Y::Mapping(m) => {
            let mut o = serde_json::Map::new();
            for (k, v) in m {
                let key = match k {
                    Y::String(s) => s.clone(),
                    Y::Number(n) => n.to_string(),
                    Y::Bool(b) => b.to_string(),
                    Y::Null => "null".to_owned(),
                    other => return Err(format!("unsupported mapping key: {other:?}")),
                };
                if o.insert(key.clone(), yaml_value_to_json(v)?).is_some() {
                    return Err(format!("duplicate mapping key: {key}"));
                }
            }
            J::Object(o)
        }
        Y::Tagged(t) => yaml_value_to_json(&t.value)?,
    })
}

/// Structural facts about a loaded module set, computed through oal's public syntax API.
/// They serve as preconditions of known findings and as histogram classes.
pub fn structural_labels(mods: &ModuleSet) -> Vec<String> {
    use oal_compiler::definition::Definition;
    use oal_model::grammar::AbstractSyntaxNode;
    use oal_syntax::atom::VariadicOperator;
    use oal_syntax::parser as syn;
    let mut out = std::collections::BTreeSet::new();
    if mods.len() > 1 {
        out.insert("multi-module");
    }
    for tree in mods.modules() {
        for node in tree.root().descendants() {
            if let Some(app) = syn::Application::cast(node) {
                out.insert("application");
                let var = app.lambda();
                if let Some(Definition::External(ext)) = var.node().syntax().core_ref().definition() {
                    let target = ext.node(mods);
                    if target.tree().locator() != tree.locator() && syn::Declaration::cast(target).map_or(false, |d| d.has_bindings()) {
                        out.insert("applies-imported-function");
                    }
                }
            } else if let Some(op) = syn::VariadicOp::cast(node) {
                match op.operator() {
                    VariadicOperator::Range => out.insert("range-op"),
                    VariadicOperator::Any => out.insert("any-op"),
                    _ => out.insert("sum-or-join-op"),
                };
            } else if let Some(meta) = syn::ContentMeta::cast(node) {
                if meta.kind() == syn::ContentTagKind::Headers {
                    out.insert("has-headers");
                }
            } else if syn::Recursion::cast(node).is_some() {
                out.insert("has-recursion");
            } else if syn::Declaration::cast(node).is_some() {
                if node.syntax().has_core() && node.syntax().core_ref().is_recursive {
                    out.insert("has-recursion");
                }
            } else if syn::Import::cast(node).is_some() {
                out.insert("has-import");
            }
        }
    }
    out.into_iter().map(|s| s.to_owned()).collect()
}

/// Checks that a span lies within its module's text on character boundaries
/// (at most one position past the end for end-of-input).
pub fn span_ok(sources: &Sources, span: &Span) -> Result<(), String> {
    let name = name_of(span.locator());
    let Some(text) = sources.files.get(&name) else {
        return Err(format!("span {span} points to a module that is not part of the program"));
    };
    let (a, b) = (span.start(), span.end());
    if a > b {
        return Err(format!("span {span}: start > end"));
    }
    let eoi = a == text.len() && b == text.len() + 1;
    if !eoi {
        if b > text.len() {
            return Err(format!("span {span} ends past the text (len {})", text.len()));
        }
        if !text.is_char_boundary(a) || !text.is_char_boundary(b) {
            return Err(format!("span {span} is not on character boundaries"));
        }
    }
    Ok(())
}
