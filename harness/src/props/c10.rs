//! C10 — modules load once, compile after their imports, import cycles are errors.

use crate::engine::{catch, CaseCtx, CaseReport, Failure, Property, Tier};
use crate::oal::*;
use crate::tape::Tape;
use oal_compiler::errors::Kind;
use serde_json::{json, Value};
use std::collections::{BTreeMap, BTreeSet};

pub struct C10;

const DECORATIONS: u64 = 8;

fn graphs_upto(n: u32) -> u64 {
    (1..=n).map(|k| 1u64 << (k * k)).sum()
}

fn exhaustive_n(tier: Tier) -> u32 {
    match tier {
        Tier::Quick => 3,
        Tier::Thorough => 4,
    }
}

fn n_random(tier: Tier) -> u64 {
    match tier {
        Tier::Quick => 500_000,
        Tier::Thorough => 1_500_000,
    }
}

/// A generated import graph with its decorations.
#[derive(Clone, Debug)]
struct Case {
    n: usize,
    /// adjacency: edges[i] = list of import statements of module i, in source order:
    /// (target module or None for a missing file, spelling variant, qualifier)
    uses: Vec<Vec<(Option<usize>, String, Option<String>)>>,
    /// Where each import statement stands: 0 before the declaration, 1 after it, 2 at the end of
    /// the module (`use` is a statement like any other: it may follow declarations and resources).
    places: Vec<Vec<u8>>,
    files: Vec<String>,
    /// (i, j, k): modules j and k both declare `w` and module i, which imports both without a
    /// qualifier, uses it.
    clash: Option<(usize, usize, usize)>,
}

fn dir_of(path: &str) -> Vec<&str> {
    let mut parts: Vec<&str> = path.split('/').collect();
    parts.pop();
    parts
}

/// The relative path from the directory of `from` to the file `to`.
fn relative(from: &str, to: &str) -> String {
    let fd = dir_of(from);
    let td = dir_of(to);
    let mut common = 0;
    while common < fd.len() && common < td.len() && fd[common] == td[common] {
        common += 1;
    }
    let mut out: Vec<String> = Vec::new();
    for _ in common..fd.len() {
        out.push("..".to_owned());
    }
    for p in &td[common..] {
        out.push((*p).to_owned());
    }
    out.push(to.rsplit('/').next().unwrap().to_owned());
    out.join("/")
}

fn build_case(n: usize, adj: &dyn Fn(usize, usize) -> bool, t: &mut Tape) -> Case {
    // Layout: module 0 is main; others may live in sub-directories.
    let mut files = Vec::new();
    let layout = t.choose(3);
    for i in 0..n {
        let dir = match (layout, i) {
            (_, 0) => "",
            (0, _) => "",
            (1, _) => "lib/",
            _ => *t.pick_ref(&["", "lib/", "lib/sub/", "other/"]),
        };
        // One name in four has a blank or a non-ASCII letter (percent-encoded in the locator).
        let stem = match t.choose(8) {
            0 => format!("m {i}"),
            1 => format!("m\u{e9}{i}"),
            _ => format!("m{i}"),
        };
        files.push(if i == 0 { "main.oal".to_owned() } else { format!("{dir}{stem}.oal") });
    }
    let mut uses: Vec<Vec<(Option<usize>, String, Option<String>)>> = Vec::new();
    for i in 0..n {
        let mut us = Vec::new();
        for j in 0..n {
            if adj(i, j) {
                let rel = relative(&files[i], &files[j]);
                let spelling = match t.choose(4) {
                    0 => format!("./{rel}"),
                    1 => format!("x/../{rel}"),
                    _ => rel.clone(),
                };
                let q = if t.chance(2, 3) { Some(format!("q{j}")) } else { None };
                us.push((Some(j), spelling, q));
                // A duplicate `use` of the same file under another spelling / qualifier.
                if t.chance(1, 5) {
                    us.push((Some(j), format!("./{rel}"), Some(format!("d{j}"))));
                }
            }
        }
        // A missing target on some module.
        if t.chance(1, 6) {
            let name = *t.pick_ref(&["nowhere.oal", "lib/missing.oal", "../up.oal"]);
            us.push((None, name.to_owned(), Some("qx".to_owned())));
        }
        // Permute the use statements.
        for a in (1..us.len()).rev() {
            let b = t.choose(a + 1);
            us.swap(a, b);
        }
        uses.push(us);
    }
    let places = uses.iter().map(|us| us.iter().map(|_| if t.chance(1, 3) { 1 + t.choose(2) as u8 } else { 0 }).collect()).collect();
    // One case in five (where the graph allows it): two modules imported without qualifier by the
    // same module declare the same name.
    let mut clash = None;
    if t.chance(1, 5) {
        let unq = |i: usize| -> Vec<usize> { uses[i].iter().filter(|(t, _, q)| t.is_some() && q.is_none()).map(|(t, _, _)| t.unwrap()).collect() };
        let mut cands = Vec::new();
        for i in 0..n {
            let us = unq(i);
            for &j in &us {
                for &k in &us {
                    if j < k && j != i && k != i && !unq(j).contains(&k) && !unq(k).contains(&j) {
                        cands.push((i, j, k));
                    }
                }
            }
        }
        if !cands.is_empty() {
            clash = Some(*t.pick_ref(&cands));
        }
    }
    Case { n, uses, places, files, clash }
}

fn sources_of(c: &Case) -> Sources {
    let mut files = BTreeMap::new();
    for i in 0..c.n {
        let mut text = String::new();
        let mut props = vec![format!("'m{i} num")];
        let mut mentions: Vec<(usize, String, String)> = Vec::new();
        let mut later = [String::new(), String::new()];
        for (ui, (target, spelling, q)) in c.uses[i].iter().enumerate() {
            let stmt = match q {
                Some(q) => format!("use \"{spelling}\" as {q} ;\n"),
                None => format!("use \"{spelling}\" ;\n"),
            };
            match c.places[i][ui] {
                0 => text.push_str(&stmt),
                p => later[p as usize - 1].push_str(&stmt),
            }
            if let Some(j) = target {
                // Mention the imported module's declaration so that compile order matters.
                // (A module cannot mention itself through a self import: that is a cycle anyway.)
                match q {
                    Some(q) => mentions.push((*j, q.clone(), format!("{q}.v{j}"))),
                    None => {
                        if *j != i {
                            mentions.push((*j, String::new(), format!("v{j}")))
                        }
                    }
                }
            }
        }
        // The body does not depend on the order of the use statements.
        mentions.sort();
        for (j, q, e) in mentions {
            props.push(format!("'d{j}{q} {e}"));
        }
        if let Some((ci, cj, ck)) = c.clash {
            if i == ci {
                props.push("'w w".to_owned());
            }
            if i == cj {
                text.push_str("let w = num ;\n");
            }
            if i == ck {
                text.push_str("let w = str ;\n");
            }
        }
        text.push_str(&format!("let v{i} = {{ {} }} ;\n", props.join(" , ")));
        text.push_str(&later[0]);
        if i == 0 {
            text.push_str("res / on get -> v0 ;\n");
        }
        text.push_str(&later[1]);
        files.insert(c.files[i].clone(), text);
    }
    Sources { main: "main.oal".to_owned(), files }
}

struct Analysis {
    reachable: BTreeSet<usize>,
    has_cycle: bool,
    missing: BTreeSet<String>,
}

fn analyse(c: &Case) -> Analysis {
    let mut reachable = BTreeSet::new();
    let mut stack = vec![0usize];
    let mut missing = BTreeSet::new();
    while let Some(i) = stack.pop() {
        if !reachable.insert(i) {
            continue;
        }
        for (t, spelling, _) in &c.uses[i] {
            match t {
                Some(j) => stack.push(*j),
                None => {
                    // The locator the loader will ask for.
                    let base = locator(&c.files[i]);
                    if let Ok(l) = base.join(spelling) {
                        missing.insert(name_of(&l));
                    }
                }
            }
        }
    }
    // Cycle among reachable modules (self loops included).
    let mut state: BTreeMap<usize, u8> = BTreeMap::new();
    fn dfs(i: usize, c: &Case, state: &mut BTreeMap<usize, u8>) -> bool {
        match state.get(&i) {
            Some(1) => return true,
            Some(2) => return false,
            _ => {}
        }
        state.insert(i, 1);
        for (t, _, _) in &c.uses[i] {
            if let Some(j) = t {
                if dfs(*j, c, state) {
                    return true;
                }
            }
        }
        state.insert(i, 2);
        false
    }
    let has_cycle = dfs(0, c, &mut state);
    Analysis { reachable, has_cycle, missing }
}

fn check_case(c: &Case, r: &mut CaseReport) -> Option<String> {
    let sources = sources_of(c);
    let a = analyse(c);
    let mut loader = MemLoader::new(&sources);
    let result = match catch(|| oal_compiler::module::load(&mut loader, &locator("main.oal"))) {
        Ok(x) => x,
        Err(p) => {
            r.fail(Failure::new(p.signature(), format!("module::load panicked at {}: {}", p.location, p.message)));
            return None;
        }
    };
    let log = loader.log.clone();
    let count = |pred: &dyn Fn(&Event) -> Option<&String>| -> BTreeMap<String, usize> {
        let mut m = BTreeMap::new();
        for e in &log {
            if let Some(n) = pred(e) {
                *m.entry(n.clone()).or_default() += 1;
            }
        }
        m
    };
    let loads = count(&|e| if let Event::Load(n) = e { Some(n) } else { None });
    let parses = count(&|e| if let Event::Parse(n) = e { Some(n) } else { None });
    let compiles = count(&|e| if let Event::Compile(n) = e { Some(n) } else { None });
    // In every case: load/parse at most once per locator.
    for (n, k) in loads.iter().chain(parses.iter()) {
        if *k > 1 {
            r.fail(Failure::new("c10:loaded-twice", format!("module {n} was loaded or parsed {k} times; log: {log:?}")));
            return None;
        }
    }
    let expected_files: BTreeSet<String> = a.reachable.iter().map(|i| c.files[*i].clone()).collect();
    let faults = a.has_cycle || !a.missing.is_empty();
    match result {
        Ok(mods) => {
            if faults {
                r.fail(Failure::new(
                    "c10:fault-not-reported",
                    format!("the graph has {} but load succeeded", if a.has_cycle { "a cycle" } else { "a missing import" }),
                ));
                return None;
            }
            let got: BTreeSet<String> = mods.locators().map(name_of).collect();
            if got != expected_files {
                r.fail(Failure::new("c10:module-set", format!("loaded modules {got:?}, reachable modules {expected_files:?}")));
                return None;
            }
            for f in &expected_files {
                if loads.get(f) != Some(&1) || parses.get(f) != Some(&1) || compiles.get(f) != Some(&1) {
                    r.fail(Failure::new(
                        "c10:not-exactly-once",
                        format!("module {f}: load x{:?}, parse x{:?}, compile x{:?}", loads.get(f), parses.get(f), compiles.get(f)),
                    ));
                    return None;
                }
            }
            if loads.len() != expected_files.len() || compiles.len() != expected_files.len() {
                r.fail(Failure::new("c10:extra-module", format!("loads {loads:?} compiles {compiles:?} for reachable {expected_files:?}")));
                return None;
            }
            // Compile order: each module after all modules it imports.
            let order: Vec<&String> = log.iter().filter_map(|e| if let Event::Compile(n) = e { Some(n) } else { None }).collect();
            let pos = |f: &String| order.iter().position(|x| *x == f);
            for i in &a.reachable {
                for (t, _, _) in &c.uses[*i] {
                    if let Some(j) = t {
                        if pos(&c.files[*j]) > pos(&c.files[*i]) {
                            r.fail(Failure::new(
                                "c10:compile-order",
                                format!("{} was compiled before its import {}; order {order:?}", c.files[*i], c.files[*j]),
                            ));
                            return None;
                        }
                    }
                }
            }
            // The document (also serves the order / alias independence comparison).
            match catch(|| back_end(&mods, None)) {
                Ok(BackEnd::Document(api)) => Some(serde_yaml::to_string(&api).unwrap()),
                Ok(BackEnd::EvalError(e)) => {
                    r.fail(Failure::new("c10:eval-error", format!("evaluation failed on a well-formed module graph: {e}")));
                    None
                }
                Err(p) => {
                    r.fail(Failure::new(p.signature(), format!("evaluation panicked at {}: {}", p.location, p.message)));
                    None
                }
            }
        }
        Err(e) => {
            if !compiles.is_empty() && a.has_cycle && a.missing.is_empty() {
                r.fail(Failure::new("c10:compiled-despite-cycle", format!("compile was called although the import graph has a cycle: {compiles:?}")));
                return None;
            }
            let kind = match &e {
                LoadError::Compiler(ce) => Some(&ce.kind),
                _ => None,
            };
            match kind {
                Some(Kind::CycleDetected) if a.has_cycle => None,
                Some(Kind::InvalidModule(l)) if a.missing.contains(&name_of(l)) => None,
                _ if !faults => {
                    r.fail(Failure::new("c10:spurious-error", format!("load failed with {:?} on a graph without faults", e.kind_name())));
                    None
                }
                _ => {
                    r.fail(Failure::new(
                        "c10:wrong-error",
                        format!("load failed with {} ({e:?}); cycle: {}, missing: {:?}", e.kind_name(), a.has_cycle, a.missing),
                    ));
                    None
                }
            }
        }
    }
}

fn decode(index: u64, tier: Tier) -> Option<(usize, u64)> {
    // Returns (n, adjacency bits) for the exhaustive part.
    let mut g = index / DECORATIONS;
    for n in 1..=exhaustive_n(tier) {
        let c = 1u64 << (n * n);
        if g < c {
            return Some((n as usize, g));
        }
        g -= c;
    }
    None
}

impl Property for C10 {
    fn id(&self) -> &'static str {
        "C10"
    }
    fn tape_len(&self) -> usize {
        400
    }
    fn cases(&self, tier: Tier) -> u64 {
        graphs_upto(exhaustive_n(tier)) * DECORATIONS + n_random(tier)
    }
    fn rule(&self) -> String {
        "Cases: every directed graph with self loops on N modules (N <= 3 quick: 530 graphs; N <= 4 thorough: 66066 graphs), each under 8 \
         tape-chosen decorations (directory layout with modules in sub-directories, relative spellings `./`, `x/../`, duplicate `use` of a \
         file under another qualifier and spelling, a missing target on some module, qualified / unqualified imports, permuted `use` \
         statements), then random graphs on up to 8 modules. Module i declares v_i which mentions v_j of every import, so compile order \
         matters. Oracle: a recording in-memory Loader wrapping the real parse and compile; from the graph the reachable set, cycles and \
         missing targets are computed independently: no fault => Ok, module set = reachable set, load/parse/compile exactly once per member \
         and for nothing else, every module compiled after all its imports, evaluation succeeds; cycle (no missing) => CycleDetected and no \
         compile call; missing => InvalidModule naming a missing locator (either error when both); load/parse never twice per locator; the \
         8 decorations of one graph that share a layout must yield the same verdict and the same document. Non-trivial: >= 2 reachable \
         modules and (a diamond, a cycle, a missing target, a duplicate use or a sub-directory). Distinct by hash of the source set."
            .to_owned()
    }
    fn assumptions(&self) -> Vec<String> {
        vec![
            "the exhaustive part enumerates graphs completely; the decorations of each graph are sampled (8 per graph)".into(),
            "when a graph has both a cycle and a reachable missing import either error is accepted".into(),
        ]
    }
    fn exhaustive(&self, tier: Tier) -> Option<String> {
        Some(format!("all {} import digraphs (self loops included) on N <= {} modules; decorations sampled, 8 per graph", graphs_upto(exhaustive_n(tier)), exhaustive_n(tier)))
    }
    fn run_case(&self, tape: &mut Tape, ctx: &CaseCtx) -> CaseReport {
        let mut r = CaseReport::default();
        let (case, phase) = match decode(ctx.index, ctx.tier) {
            Some((n, bits)) => (build_case(n, &|i, j| (bits >> (i * n + j)) & 1 == 1, tape), "exhaustive"),
            None => {
                let n = tape.range(2, 8);
                let density = tape.range(1, 4) as u32;
                let mut bits = vec![false; n * n];
                for b in bits.iter_mut() {
                    *b = tape.chance(density, 12);
                }
                // Mostly forward edges, so that large acyclic graphs are common.
                if tape.chance(2, 3) {
                    for i in 0..n {
                        for j in 0..=i {
                            bits[i * n + j] = false;
                        }
                    }
                }
                (build_case(n, &|i, j| bits[i * n + j], tape), "random")
            }
        };
        let sources = sources_of(&case);
        r.hash = sources.hash64();
        let a = analyse(&case);
        let doc = check_case(&case, &mut r);
        r.evaluations = 1;
        // Alias / order independence: the same graph and layout under other spellings and orders.
        if r.failure.is_none() {
            let mut other = case.clone();
            for us in other.uses.iter_mut() {
                us.reverse();
                for (t, spelling, _) in us.iter_mut() {
                    if t.is_some() {
                        *spelling = if let Some(s) = spelling.strip_prefix("./") {
                            format!("y/../{s}")
                        } else if let Some(s) = spelling.strip_prefix("x/../") {
                            s.to_owned()
                        } else {
                            format!("./{spelling}")
                        };
                    }
                }
            }
            let mut r2 = CaseReport::default();
            let doc2 = check_case(&other, &mut r2);
            r.evaluations += 1;
            if let Some(f) = r2.failure {
                r.fail(Failure::new(format!("{}(respelled)", f.signature), f.detail));
            } else if doc != doc2 {
                r.fail(Failure::new(
                    "c10:depends-on-spelling-or-order",
                    format!("the document differs after reversing the use statements and respelling the paths:\n{:?}\nvs\n{:?}", doc, doc2),
                ));
            }
        }
        // One case in a hundred also goes through the real command-line compiler on real files (the
        // locator-to-path mapping and the file system loader are not part of the in-memory run).
        if r.failure.is_none() && tape.chance(1, 100) {
            thread_local! {
                static DIR: std::cell::RefCell<Option<crate::lspc::Scratch>> = const { std::cell::RefCell::new(None) };
            }
            DIR.with(|d| {
                let mut d = d.borrow_mut();
                let dir = d.get_or_insert_with(|| crate::lspc::Scratch::new("c10"));
                let _ = std::fs::remove_dir_all(&dir.path);
                std::fs::create_dir_all(&dir.path).ok();
                for (name, text) in &sources.files {
                    dir.write(name, text);
                }
                let res = crate::lspc::run_cli(&dir.path, &["-m", "main.oal", "-t", "out.yaml"]);
                r.evaluations += 1;
                r.label("through-cli");
                let faults = a.has_cycle || !a.missing.is_empty();
                let written = dir.path.join("out.yaml").exists();
                let ok = if faults { res.code == Some(1) && !written } else { res.code == Some(0) && written };
                if !ok {
                    r.fail(Failure::new(
                        "c10:cli-verdict",
                        format!(
                            "oal-cli on the same files (graph {}) exits with {} and the target is {}; stderr: {}",
                            if faults { "with a cycle or a missing import" } else { "without faults" },
                            res.status,
                            if written { "written" } else { "not written" },
                            res.stderr.chars().take(600).collect::<String>()
                        ),
                    ));
                }
            });
        }
        let subdir = case.files.iter().any(|f| f.contains('/'));
        let dup = case.uses.iter().any(|us| {
            let ts: Vec<_> = us.iter().filter_map(|(t, _, _)| *t).collect();
            ts.iter().collect::<BTreeSet<_>>().len() < ts.len()
        });
        let mut indeg: BTreeMap<usize, usize> = BTreeMap::new();
        for i in &a.reachable {
            for j in case.uses[*i].iter().filter_map(|(t, _, _)| *t).collect::<BTreeSet<_>>() {
                *indeg.entry(j).or_default() += 1;
            }
        }
        let diamond = indeg.values().any(|d| *d >= 2);
        r.nontrivial = a.reachable.len() >= 2 && (diamond || a.has_cycle || !a.missing.is_empty() || dup || subdir);
        r.label(format!("phase:{phase}"));
        r.label(format!("modules:{}", case.n));
        if a.has_cycle {
            r.label("cycle");
        }
        if !a.missing.is_empty() {
            r.label("missing-target");
        }
        if diamond {
            r.label("diamond");
        }
        if dup {
            r.label("duplicate-use");
        }
        if subdir {
            r.label("sub-directory");
        }
        if case.clash.is_some() {
            r.label("clashing-unqualified-imports");
        }
        if !a.has_cycle && a.missing.is_empty() {
            r.label("well-formed");
        }
        if ctx.want_rendered || r.failure.is_some() {
            r.rendered = Some(json!({"sources": sources.to_json(), "cycle": a.has_cycle, "missing": a.missing, "reachable": a.reachable.iter().map(|i| case.files[*i].clone()).collect::<Vec<_>>()}));
        }
        r
    }
    fn replay(&self, case: &Value) -> Option<Result<(), Failure>> {
        // The call-sequence oracle needs the graph the sources were built from (replay goes through
        // the tape); a stored pair of source sets that differ only in the order and spelling of
        // their use statements is compared for the document.
        let a: Sources = serde_json::from_value(case.get("sources")?.clone()).ok()?;
        let b: Sources = serde_json::from_value(case.get("reordered")?.clone()).ok()?;
        let doc = |s: &Sources| match catch(|| pipeline(s, None)) {
            Ok(Outcome::Document { yaml, .. }) => Some(yaml),
            _ => None,
        };
        let (da, db) = (doc(&a)?, doc(&b)?);
        Some(if da == db {
            Ok(())
        } else {
            Err(Failure::new("c10:depends-on-spelling-or-order", format!("the document differs after reordering the use statements:\n{da}\nvs\n{db}")))
        })
    }
}
