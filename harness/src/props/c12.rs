//! C12 — parser memoisation is invisible and keeps parsing linear.

use crate::engine::{CaseCtx, CaseReport, Failure, Property, Tier};
use crate::gen::ast::render_plain;
use crate::gen::text::{decode_seq, pow, seq_space};
use crate::gen::typed::{Gen, GenCfg};
use crate::tape::Tape;
use oal_model::grammar::{Context, NodeRef, ParserMatch, SyntaxTrunk};
use oal_model::lexicon::{Interner, Lexeme, TokenList};
use oal_syntax::lexer::{Token, TokenKind as TK, TokenValue};
use oal_syntax::parser::{parse_expression, parse_program, parse_statement, Gram};
use serde_json::{json, Value};

pub struct C12;

/// The reduced alphabet for the exhaustive part (15 kinds).
const REDUCED: [TK; 15] = [
    TK::ControlParenLeft,
    TK::ControlParenRight,
    TK::ControlBracketLeft,
    TK::ControlBracketRight,
    TK::ControlBraceLeft,
    TK::ControlBraceRight,
    TK::ControlChevronLeft,
    TK::ControlChevronRight,
    TK::Property,
    TK::IdentifierValue,
    TK::PrimitiveNum,
    TK::OperatorVerticalBar,
    TK::OperatorAmpersand,
    TK::OperatorDoubleColon,
    TK::ControlComma,
];

const ALL_KINDS: [TK; 54] = [
    TK::Space,
    TK::CommentLine,
    TK::CommentBlock,
    TK::PrimitiveNum,
    TK::PrimitiveStr,
    TK::PrimitiveUri,
    TK::PrimitiveBool,
    TK::PrimitiveInt,
    TK::PathElementRoot,
    TK::PathElementSegment,
    TK::MethodGet,
    TK::MethodPut,
    TK::MethodPost,
    TK::MethodPatch,
    TK::MethodDelete,
    TK::MethodOptions,
    TK::MethodHead,
    TK::ContentMedia,
    TK::ContentHeaders,
    TK::ContentStatus,
    TK::KeywordLet,
    TK::KeywordRes,
    TK::KeywordUse,
    TK::KeywordAs,
    TK::KeywordOn,
    TK::KeywordRec,
    TK::IdentifierValue,
    TK::IdentifierReference,
    TK::LiteralNumber,
    TK::LiteralString,
    TK::LiteralHttpStatus,
    TK::Property,
    TK::ControlBraceLeft,
    TK::ControlBraceRight,
    TK::ControlParenLeft,
    TK::ControlParenRight,
    TK::ControlBracketLeft,
    TK::ControlBracketRight,
    TK::ControlChevronLeft,
    TK::ControlChevronRight,
    TK::ControlSemicolon,
    TK::ControlFullStop,
    TK::ControlComma,
    TK::OperatorExclamationMark,
    TK::OperatorQuestionMark,
    TK::OperatorAmpersand,
    TK::OperatorTilde,
    TK::OperatorVerticalBar,
    TK::OperatorEqual,
    TK::OperatorColon,
    TK::OperatorDoubleColon,
    TK::OperatorArrow,
    TK::AnnotationLine,
    TK::AnnotationInline,
];

type Ctx = Context<(), Gram>;

fn build(kinds: &[TK]) -> TokenList<Token> {
    let mut l = TokenList::new(crate::oal::locator("main.oal"));
    for (i, k) in kinds.iter().enumerate() {
        let v = match k {
            TK::LiteralNumber => TokenValue::Number(200),
            TK::IdentifierValue | TK::IdentifierReference | TK::LiteralString | TK::Property | TK::PathElementSegment | TK::AnnotationLine | TK::AnnotationInline => {
                TokenValue::Symbol(l.register("a"))
            }
            _ => TokenValue::None,
        };
        l.push(Token::new(*k, v), i..i + 1);
    }
    l
}

fn dump(node: NodeRef<(), Gram>, out: &mut String) {
    match node.syntax().trunk() {
        SyntaxTrunk::Leaf(t) => {
            out.push_str(&format!("L{:?}@{}", t.kind(), node.token().span().start()));
        }
        SyntaxTrunk::Tree(k) => out.push_str(&format!("T{k:?}")),
        SyntaxTrunk::Error => out.push_str("E"),
    }
    if !node.is_empty() {
        out.push('[');
        for c in node.children() {
            dump(c, out);
            out.push(' ');
        }
        out.push(']');
    }
}

#[derive(Clone, Copy, PartialEq, Eq, Debug)]
enum Entry {
    Program,
    Statement,
    Expression,
}

/// Parses with the given entry point; returns (dump of result incl. errors, reads, hits).
fn parse_with(kinds: &[TK], entry: Entry, cached: bool) -> (String, usize, usize) {
    let tokens = build(kinds);
    let mut ctx: Ctx = Context::new(tokens);
    if !cached {
        ctx = ctx.without_cache();
    }
    let head = ctx.head();
    let res = match entry {
        Entry::Program => parse_program(&mut ctx, head),
        Entry::Statement => parse_statement(&mut ctx, head),
        Entry::Expression => parse_expression(&mut ctx, head),
    };
    let (reads, hits, _size) = ctx.work();
    let mut out = String::new();
    match res {
        Ok((cursor, m)) => {
            let stop = if cursor.is_valid() { format!("stop@{}", ctx.span(cursor).start()) } else { "stop@end".to_owned() };
            out.push_str(&stop);
            out.push(' ');
            match m {
                ParserMatch::Node(n) => {
                    let tree = ctx.tree().finalize(n);
                    dump(tree.root(), &mut out);
                }
                ParserMatch::Token(t) => out.push_str(&format!("tok{:?}", t.kind())),
                ParserMatch::Syntax(k) => out.push_str(&format!("syn{k:?}")),
            }
        }
        Err(e) => {
            out.push_str(&format!("ERR {} @{}..{}", e, e.span().start(), e.span().end()));
        }
    }
    (out, reads, hits)
}

fn nesting(kinds: &[TK]) -> usize {
    let mut d = 0usize;
    let mut m = 0usize;
    for k in kinds {
        match k {
            TK::ControlParenLeft | TK::ControlBracketLeft | TK::ControlBraceLeft | TK::ControlChevronLeft => {
                d += 1;
                m = m.max(d);
            }
            TK::ControlParenRight | TK::ControlBracketRight | TK::ControlBraceRight | TK::ControlChevronRight => d = d.saturating_sub(1),
            _ => {}
        }
    }
    m
}

/// Work per token may not grow with the input: a parse of 10 times the input may cost at most this
/// many times the CPU time per token (and only costs above the floor count: timer noise).
const K_TIME_GROWTH: u64 = 4;
const K_TIME_FLOOR_NS: u64 = 8_000;

const FLAT_STATEMENTS: [&[TK]; 6] = [
    &[TK::KeywordLet, TK::IdentifierValue, TK::OperatorEqual, TK::PrimitiveNum, TK::ControlSemicolon],
    &[TK::KeywordLet, TK::IdentifierValue, TK::OperatorEqual, TK::ControlBraceLeft, TK::Property, TK::PrimitiveStr, TK::ControlBraceRight, TK::ControlSemicolon],
    &[TK::KeywordRes, TK::PathElementRoot, TK::KeywordOn, TK::MethodGet, TK::OperatorArrow, TK::ControlChevronLeft, TK::ControlChevronRight, TK::ControlSemicolon],
    &[TK::KeywordLet, TK::IdentifierReference, TK::OperatorEqual, TK::ControlBracketLeft, TK::IdentifierValue, TK::ControlBracketRight, TK::ControlSemicolon],
    &[TK::KeywordUse, TK::LiteralString, TK::KeywordAs, TK::IdentifierValue, TK::ControlSemicolon],
    &[TK::AnnotationLine, TK::KeywordLet, TK::IdentifierValue, TK::IdentifierValue, TK::OperatorEqual, TK::IdentifierValue, TK::IdentifierValue, TK::OperatorVerticalBar, TK::PrimitiveNum, TK::AnnotationInline, TK::ControlSemicolon],
];

const K_LINEAR: usize = 64;
const UNCACHED_MAX_NESTING: usize = 4;
/// Short inputs are cheap without the cache whatever their nesting.
const UNCACHED_ALWAYS_BELOW_TOKENS: usize = 11;

struct Outcome {
    checks: u64,
    max_ratio_milli: u64,
    hits: usize,
    equiv_checked: bool,
    failure: Option<Failure>,
}

/// `levels`: the number of nesting levels when the generator knows it (levels without brackets,
/// such as `'p 'p 'p num`, are as exponential for the uncached parse as bracketed ones).
fn check_kinds(kinds: &[TK], entries: &[Entry], levels: Option<usize>) -> Outcome {
    let mut o = Outcome { checks: 0, max_ratio_milli: 0, hits: 0, equiv_checked: false, failure: None };
    let show = || kinds.iter().map(|k| format!("{k:?}")).collect::<Vec<_>>().join(" ");
    for &entry in entries {
        let (d1, reads, hits) = parse_with(kinds, entry, true);
        o.checks += 1;
        o.hits += hits;
        let ratio = (reads as u64 * 1000) / (kinds.len() as u64 + 1);
        o.max_ratio_milli = o.max_ratio_milli.max(ratio);
        if reads > K_LINEAR * (kinds.len() + 1) {
            o.failure = Some(Failure::new(
                "c12:superlinear",
                format!("{entry:?}: {reads} token reads for {} tokens (> {K_LINEAR} per token); input: {}", kinds.len(), show()),
            ));
            return o;
        }
        if levels.unwrap_or_else(|| nesting(kinds)) <= UNCACHED_MAX_NESTING || kinds.len() < UNCACHED_ALWAYS_BELOW_TOKENS {
            let (d2, _, _) = parse_with(kinds, entry, false);
            o.checks += 1;
            o.equiv_checked = true;
            if d1 != d2 {
                o.failure = Some(Failure::new(
                    "c12:cache-visible",
                    format!("{entry:?}: cached and uncached parses differ on: {}\n cached:   {d1}\n uncached: {d2}", show()),
                ));
                return o;
            }
        }
    }
    o
}

/// CPU time per token (best of three, this thread's clock) of the cached parse of a long input and
/// of its first tenth; token reads of the long one.
fn time_growth(small: &[TK], huge: &[TK]) -> (u64, u64, usize) {
    let time = |kinds: &[TK]| -> (u64, usize) {
        let mut best = u64::MAX;
        let mut reads = 0;
        for _ in 0..3 {
            let t0 = crate::engine::own_cpu_ns();
            let (_, r, _) = parse_with(kinds, Entry::Program, true);
            best = best.min(crate::engine::own_cpu_ns() - t0);
            reads = r;
        }
        (best, reads)
    };
    let (ns_small, _) = time(small);
    let (ns_huge, reads) = time(huge);
    (ns_small / small.len().max(1) as u64, ns_huge / huge.len().max(1) as u64, reads)
}

fn time_growth_failure(per_small: u64, per_huge: u64, n_small: usize, n_huge: usize) -> Option<Failure> {
    if per_huge > K_TIME_GROWTH * per_small.max(1) && per_huge > K_TIME_FLOOR_NS {
        Some(Failure::new(
            "c12:superlinear-time",
            format!(
                "the cached parse of {n_huge} tokens of flat statements costs {per_huge} ns of CPU per token, its first tenth ({n_small} tokens) {per_small} ns per token: \
                 more than {K_TIME_GROWTH} times as much per token for 10 times the input (best of 3 each)"
            ),
        ))
    } else {
        None
    }
}

fn frame(body: &[TK]) -> Vec<TK> {
    let mut v = vec![TK::KeywordLet, TK::IdentifierValue, TK::OperatorEqual];
    v.extend_from_slice(body);
    v.push(TK::ControlSemicolon);
    v
}

struct Phases {
    exhaustive_len: u32,
    sampled: u64,
    random: u64,
    nested: u64,
    programs: u64,
    flat: u64,
    huge: u64,
    mixed: u64,
    entry: u64,
}

fn phases(tier: Tier) -> Phases {
    match tier {
        Tier::Quick => Phases { exhaustive_len: 4, sampled: 200_000, random: 40_000, nested: 7 * 40, programs: 4_000, flat: 400, huge: 8, mixed: 60_000, entry: (crate::gen::text::TEMPLATES * 40) as u64 },
        Tier::Thorough => Phases { exhaustive_len: 6, sampled: 0, random: 800_000, nested: 7 * 40, programs: 100_000, flat: 8_000, huge: 64, mixed: 1_500_000, entry: (crate::gen::text::TEMPLATES * crate::gen::text::VARIANTS * 40) as u64 },
    }
}

fn nested_kinds(which: usize, depth: usize) -> Vec<TK> {
    let (open, close, core): (Vec<TK>, Vec<TK>, Vec<TK>) = match which % 7 {
        0 => (vec![TK::ControlParenLeft], vec![TK::ControlParenRight], vec![TK::PrimitiveNum]),
        1 => (vec![TK::ControlBracketLeft], vec![TK::ControlBracketRight], vec![TK::PrimitiveNum]),
        2 => (vec![TK::ControlBraceLeft, TK::Property], vec![TK::ControlBraceRight], vec![TK::PrimitiveNum]),
        3 => (vec![TK::ControlChevronLeft], vec![TK::ControlChevronRight], vec![TK::PrimitiveNum]),
        4 => (vec![TK::PathElementRoot, TK::ControlBraceLeft, TK::Property], vec![TK::ControlBraceRight], vec![TK::PrimitiveNum]),
        5 => (vec![TK::IdentifierValue, TK::ControlParenLeft], vec![TK::ControlParenRight], vec![TK::PrimitiveNum]),
        _ => (
            vec![TK::PathElementRoot, TK::KeywordOn, TK::MethodGet, TK::OperatorArrow, TK::ControlChevronLeft],
            vec![TK::ControlChevronRight],
            vec![TK::PrimitiveNum],
        ),
    };
    let mut v = Vec::new();
    for _ in 0..depth {
        v.extend(open.iter().copied());
    }
    v.extend(core);
    for _ in 0..depth {
        v.extend(close.iter().copied());
    }
    frame(&v)
}

/// One level of a mixed nesting: tokens before and after the nested expression.
const LEVELS: [(&[TK], &[TK]); 22] = [
    (&[TK::ControlParenLeft], &[TK::ControlParenRight]),
    (&[TK::ControlBracketLeft], &[TK::ControlBracketRight]),
    (&[TK::ControlBraceLeft, TK::Property], &[TK::ControlBraceRight]),
    (&[TK::ControlChevronLeft], &[TK::ControlChevronRight]),
    (&[TK::ControlChevronLeft, TK::ContentHeaders, TK::OperatorEqual], &[TK::ControlChevronRight]),
    (&[TK::ControlChevronLeft, TK::ContentMedia, TK::OperatorEqual], &[TK::ControlChevronRight]),
    (&[TK::ControlChevronLeft, TK::ContentStatus, TK::OperatorEqual], &[TK::ControlChevronRight]),
    (&[TK::ControlChevronLeft, TK::ContentHeaders, TK::OperatorEqual], &[TK::ControlComma, TK::PrimitiveNum, TK::ControlChevronRight]),
    (&[TK::PathElementRoot, TK::ControlBraceLeft, TK::Property], &[TK::ControlBraceRight]),
    (&[TK::IdentifierValue, TK::ControlParenLeft], &[TK::ControlParenRight]),
    (&[TK::PathElementRoot, TK::KeywordOn, TK::MethodGet, TK::OperatorArrow, TK::ControlChevronLeft], &[TK::ControlChevronRight]),
    (&[TK::PathElementRoot, TK::KeywordOn, TK::MethodGet, TK::OperatorColon], &[TK::OperatorArrow, TK::PrimitiveNum]),
    (&[TK::KeywordRec, TK::IdentifierValue], &[]),
    (&[TK::ControlBraceLeft, TK::Property], &[TK::ControlComma, TK::Property, TK::PrimitiveNum, TK::ControlBraceRight]),
    (&[TK::ControlBraceLeft, TK::Property, TK::PrimitiveNum, TK::ControlComma, TK::Property], &[TK::ControlBraceRight]),
    (&[TK::Property], &[]),
    (&[TK::AnnotationLine], &[]),
    (&[TK::ControlParenLeft], &[TK::ControlParenRight, TK::AnnotationInline]),
    (&[TK::IdentifierValue], &[]),
    (&[TK::PrimitiveNum, TK::OperatorVerticalBar], &[]),
    (&[], &[TK::OperatorAmpersand, TK::PrimitiveNum]),
    (&[], &[TK::OperatorDoubleColon, TK::ControlChevronLeft, TK::ControlChevronRight]),
];

/// A nesting whose every level is drawn from `LEVELS`.
fn mixed_kinds(tape: &mut Tape) -> (Vec<TK>, usize) {
    let depth = tape.range(1, 40);
    let mut before: Vec<TK> = Vec::new();
    let mut after: Vec<Vec<TK>> = Vec::new();
    // Either one kind of level all the way down with a few strangers, or any mixture.
    let uniform = if tape.chance(1, 3) { Some(tape.choose(LEVELS.len())) } else { None };
    for _ in 0..depth {
        let l = match uniform {
            Some(u) if !tape.chance(1, 6) => u,
            _ => tape.choose(LEVELS.len()),
        };
        before.extend_from_slice(LEVELS[l].0);
        after.push(LEVELS[l].1.to_vec());
    }
    let core: &[TK] = match tape.choose(5) {
        0 => &[TK::PrimitiveNum],
        1 => &[TK::ControlBraceLeft, TK::ControlBraceRight],
        2 => &[TK::ControlChevronLeft, TK::ControlChevronRight],
        3 => &[TK::IdentifierValue],
        _ => &[],
    };
    before.extend_from_slice(core);
    for a in after.iter().rev() {
        before.extend_from_slice(a);
    }
    (frame(&before), depth)
}

const DEPTHS: [usize; 40] = [
    1, 2, 3, 4, 5, 6, 7, 8, 9, 10, 12, 14, 16, 18, 20, 25, 30, 35, 40, 50, 60, 70, 80, 90, 100, 120, 140, 160, 180, 200, 250, 300, 350, 400, 500, 600, 700, 800, 900, 1000,
];

impl Property for C12 {
    fn id(&self) -> &'static str {
        "C12"
    }
    fn tape_len(&self) -> usize {
        1500
    }
    fn cases(&self, tier: Tier) -> u64 {
        let p = phases(tier);
        seq_space(15, p.exhaustive_len) + p.sampled + p.random + p.nested + p.programs + p.flat + p.huge + p.mixed + p.entry
    }
    fn rule(&self) -> String {
        format!(
            "Cases: token lists built with TokenList::push (as the repo's own parser tests do). (1) Exhaustive: every sequence of <= L \
             tokens over a 15-kind alphabet (4 bracket pairs, property, identifier, num, |, &, ::, comma) inside the frame `let a = ... ;` \
             (L=4 quick plus 200000 sampled sequences of length 5-6; L=6 thorough). (2) Random sequences of up to 200 tokens over all 54 kinds. \
             (3) Seven nesting templates at 40 depths from 1 to 1000. (4) Generated programs tokenised by the real lexer. (5) Long flat inputs of 50-800 small statements. Entry points: \
             parse_program for all, parse_statement and parse_expression in (1) and (2). Oracle: the structural dump (node kinds, token kind \
             and index of every leaf, children in order, stop cursor, error text and span) of Context::new(tokens) equals that of \
             Context::new(tokens).without_cache() wherever bracket nesting <= {UNCACHED_MAX_NESTING} or the input has fewer than {UNCACHED_ALWAYS_BELOW_TOKENS} tokens (uncached parsing is exponential in nesting); \
             reads <= {K_LINEAR} * (tokens + 1) on every input (Context::work(), hook H2). evaluations counts parses. Non-trivial: nesting >= 2 \
             with at least one cache hit, or >= 50 tokens. Distinct by token-kind sequence."
        )
    }
    fn assumptions(&self) -> Vec<String> {
        vec![
            format!("the linear bound's constant {K_LINEAR} is calibrated: the unchanged tree needs at most ~13 reads per token (see maxima.reads_per_token_milli); without the cache the ratio at nesting 8 is already > 100000"),
            "equivalence is only checked where the uncached parse is feasible (nesting <= 4, or fewer than 11 tokens)".into(),
        ]
    }
    fn exhaustive(&self, tier: Tier) -> Option<String> {
        let l = phases(tier).exhaustive_len;
        Some(format!("all {} token sequences of length <= {l} over the 15-kind alphabet inside `let a = ... ;`, three entry points each", seq_space(15, l)))
    }
    fn run_case(&self, tape: &mut Tape, ctx: &CaseCtx) -> CaseReport {
        let p = phases(ctx.tier);
        let mut i = ctx.index;
        let space = seq_space(15, p.exhaustive_len);
        let all_entries = [Entry::Program, Entry::Statement, Entry::Expression];
        let mut levels: Option<usize> = None;
        let (phase, kinds, entries): (&str, Vec<TK>, &[Entry]) = if i < space {
            let seq = decode_seq(i, 15, p.exhaustive_len);
            ("exhaustive", frame(&seq.iter().map(|k| REDUCED[*k]).collect::<Vec<_>>()), &all_entries)
        } else {
            i -= space;
            if i < p.sampled {
                let len = 5 + (i % 2) as u32;
                let idx = tape.raw() as u64 * tape.raw() as u64 % pow(15, len);
                let mut digits = vec![0usize; len as usize];
                let mut x = idx;
                for d in digits.iter_mut().rev() {
                    *d = (x % 15) as usize;
                    x /= 15;
                }
                ("sampled", frame(&digits.iter().map(|k| REDUCED[*k]).collect::<Vec<_>>()), &all_entries)
            } else {
                i -= p.sampled;
                if i < p.random {
                    let len = tape.range(1, 200);
                    let mut v = Vec::with_capacity(len);
                    // Bias towards the kinds that open and close structure.
                    for _ in 0..len {
                        if tape.chance(1, 2) {
                            v.push(tape.pick(&REDUCED));
                        } else {
                            v.push(tape.pick(&ALL_KINDS));
                        }
                    }
                    ("random", v, &all_entries)
                } else {
                    i -= p.random;
                    if i < p.nested {
                        let which = (i as usize) % 7;
                        let depth = DEPTHS[(i as usize) / 7];
                        ("nested", nested_kinds(which, depth), &all_entries[..1])
                    } else if i - p.nested >= p.programs + p.flat + p.huge + p.mixed {
                        // The public entry point `oal_syntax::parse` on short nested texts (by depth,
                        // shallow first): whatever it does with the memo table for small inputs, the
                        // work must stay small. Its counters are not reachable, so CPU time of this
                        // thread stands in: two seconds for a text of a few hundred bytes is
                        // 10 000 times what the unchanged tree needs.
                        let k = (i - p.nested - p.programs - p.flat - p.huge - p.mixed) as usize;
                        let t = crate::gen::text::TEMPLATES;
                        let (which, depth, variant) = (k % t, (k / t) % 40 + 1, k / (t * 40));
                        let text = crate::gen::text::nested_template_variant(which, depth, variant);
                        let t0 = crate::engine::own_cpu_ns();
                        let _ = oal_syntax::parse::<_, oal_compiler::tree::Core>(crate::oal::locator("main.oal"), text.clone());
                        let cpu_ms = (crate::engine::own_cpu_ns() - t0) / 1_000_000;
                        let mut r = CaseReport::default();
                        r.hash = {
                            use std::hash::{Hash, Hasher};
                            let mut h = std::collections::hash_map::DefaultHasher::new();
                            text.hash(&mut h);
                            h.finish()
                        };
                        r.evaluations = 1;
                        r.nontrivial = depth >= 2;
                        r.label("phase:parse-entry");
                        r.max("parse_entry_cpu_ms", cpu_ms);
                        if cpu_ms > 2_000 {
                            r.fail(Failure::new(
                                "c12:parse-entry-superlinear-time",
                                format!("oal_syntax::parse took {cpu_ms} ms of CPU on a text of {} bytes nested {depth} deep (template {which}, variant {variant})", text.len()),
                            ));
                        }
                        if ctx.want_rendered || r.failure.is_some() {
                            r.rendered = Some(json!({"phase": "parse-entry", "text": text}));
                        }
                        return r;
                    } else if i - p.nested >= p.programs + p.flat + p.huge {
                        let (v, depth) = mixed_kinds(tape);
                        levels = Some(depth);
                        ("mixed", v, &all_entries[..1])
                    } else if i - p.nested >= p.programs + p.flat {
                        // Very long flat inputs (50 000 - 100 000 tokens): the cached parse only, with the
                        // CPU time it takes as a second measure of work (a memo table that degrades
                        // with its size is invisible to the read counter).
                        let n = tape.range(6_000, 12_000);
                        let mut v = Vec::new();
                        let mut small = Vec::new();
                        for k in 0..n {
                            let st = FLAT_STATEMENTS[tape.choose(FLAT_STATEMENTS.len())];
                            v.extend_from_slice(st);
                            if k < n / 10 {
                                small.extend_from_slice(st);
                            }
                        }
                        let (per_small, per_huge, reads) = time_growth(&small, &v);
                        let mut r = CaseReport::default();
                        r.hash = i ^ 0x4855_4745;
                        r.evaluations = 6;
                        r.nontrivial = true;
                        r.label("phase:huge");
                        r.max("tokens", v.len() as u64);
                        r.max("huge_cpu_ns_per_token", per_huge);
                        r.max("huge_vs_tenth_per_token_percent", per_huge * 100 / per_small.max(1));
                        r.max("reads_per_token_milli", (reads as u64 * 1000) / (v.len() as u64 + 1));
                        if reads > K_LINEAR * (v.len() + 1) {
                            r.fail(Failure::new("c12:superlinear", format!("{reads} token reads for {} tokens (> {K_LINEAR} per token) on a long flat input", v.len())));
                        } else if let Some(f) = time_growth_failure(per_small, per_huge, small.len(), v.len()) {
                            r.fail(f);
                        }
                        if ctx.want_rendered || r.failure.is_some() {
                            r.rendered = Some(json!({"phase": "huge", "kinds": v.iter().map(|k| format!("{k:?}")).collect::<Vec<_>>()}));
                        }
                        return r;
                    } else if i - p.nested >= p.programs {
                        // Long flat inputs: hundreds of small statements, shallow nesting (cheap without the cache).
                        let n = tape.range(50, 800);
                        let mut v = Vec::new();
                        for _ in 0..n {
                            v.extend_from_slice(FLAT_STATEMENTS[tape.choose(FLAT_STATEMENTS.len())]);
                        }
                        ("flat", v, &all_entries[..1])
                    } else {
                        let (prog, _) = Gen::new(tape, GenCfg::full()).program();
                        let text = &render_plain(&prog)[0].text;
                        let (list, _) = oal_syntax::lexer::tokenize(crate::oal::locator("main.oal"), text);
                        let list = list.expect("tokenize returns a list");
                        let mut kinds = Vec::new();
                        let mut c = list.head();
                        while c.is_valid() {
                            kinds.push(list.kind(c));
                            c = list.advance(c);
                        }
                        ("program", kinds, &all_entries[..1])
                    }
                }
            }
        };
        if std::env::var("OALVERIF_DEBUG_C12").is_ok() {
            eprintln!("C12 {phase}: {} tokens, nesting {}: {}", kinds.len(), nesting(&kinds), kinds.iter().map(|k| format!("{k:?}")).collect::<Vec<_>>().join(" "));
        }
        let o = check_kinds(&kinds, entries, levels);
        let mut r = CaseReport::default();
        r.hash = {
            use std::hash::{Hash, Hasher};
            let mut h = std::collections::hash_map::DefaultHasher::new();
            kinds.hash(&mut h);
            h.finish()
        };
        r.evaluations = o.checks;
        r.nontrivial = (nesting(&kinds) >= 2 && o.hits > 0) || kinds.len() >= 50;
        r.label(format!("phase:{phase}"));
        if o.equiv_checked {
            r.label("equivalence-checked");
        }
        if o.hits > 0 {
            r.label("cache-hit");
        }
        r.max("reads_per_token_milli", o.max_ratio_milli);
        r.max("tokens", kinds.len() as u64);
        if let Some(f) = o.failure {
            r.fail(f);
        }
        if ctx.want_rendered || r.failure.is_some() {
            r.rendered = Some(json!({"phase": phase, "levels": levels, "kinds": kinds.iter().map(|k| format!("{k:?}")).collect::<Vec<_>>()}));
        }
        r
    }
    fn replay(&self, case: &Value) -> Option<Result<(), Failure>> {
        if case.get("phase").and_then(|p| p.as_str()) == Some("parse-entry") {
            let text = case.get("text")?.as_str()?.to_owned();
            let t0 = crate::engine::own_cpu_ns();
            let _ = oal_syntax::parse::<_, oal_compiler::tree::Core>(crate::oal::locator("main.oal"), text.clone());
            let cpu_ms = (crate::engine::own_cpu_ns() - t0) / 1_000_000;
            return Some(if cpu_ms > 2_000 {
                Err(Failure::new("c12:parse-entry-superlinear-time", format!("oal_syntax::parse took {cpu_ms} ms of CPU on a text of {} bytes", text.len())))
            } else {
                Ok(())
            });
        }
        let names: Vec<String> = serde_json::from_value(case.get("kinds")?.clone()).ok()?;
        let kinds: Vec<TK> = names.iter().map(|n| ALL_KINDS.iter().copied().find(|k| format!("{k:?}") == *n)).collect::<Option<Vec<_>>>()?;
        if case.get("phase").and_then(|p| p.as_str()) == Some("huge") {
            // The first tenth of the statements against the whole.
            let ends: Vec<usize> = kinds.iter().enumerate().filter(|(_, k)| **k == TK::ControlSemicolon).map(|(i, _)| i + 1).collect();
            let cut = ends.get(ends.len() / 10).copied().unwrap_or(kinds.len());
            let (per_small, per_huge, reads) = time_growth(&kinds[..cut], &kinds);
            if reads > K_LINEAR * (kinds.len() + 1) {
                return Some(Err(Failure::new("c12:superlinear", format!("{reads} token reads for {} tokens", kinds.len()))));
            }
            return Some(match time_growth_failure(per_small, per_huge, cut, kinds.len()) {
                Some(f) => Err(f),
                None => Ok(()),
            });
        }
        let o = check_kinds(&kinds, &[Entry::Program, Entry::Statement, Entry::Expression], case.get("levels").and_then(|l| l.as_u64()).map(|l| l as usize));
        Some(match o.failure {
            Some(f) => Err(f),
            None => Ok(()),
        })
    }
}
