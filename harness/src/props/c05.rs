//! C05 — abstraction is free: naming, inlining, wrapping, renaming, reordering keep the output.

use crate::docq::equivalent;
use crate::engine::{catch, CaseCtx, CaseReport, Failure, Property, Tier};
use crate::gen::ast::*;
use crate::gen::typed::{Gen, GenCfg};
use crate::oal::*;
use crate::refsem::{analyse_cycles, order_dependent};
use crate::rewrite::*;
use crate::tape::Tape;
use serde_json::{json, Value};

pub struct C05;

fn n_cases(tier: Tier) -> u64 {
    match tier {
        Tier::Quick => 160_000,
        Tier::Thorough => 2_000_000,
    }
}

fn doc_of(sources: &Sources) -> Result<Result<Value, String>, crate::engine::PanicInfo> {
    catch(|| match pipeline(sources, None) {
        Outcome::Document { yaml, .. } => yaml_to_json(&yaml),
        // The verdict with the compiler's own message (it tells root causes apart).
        Outcome::Rejected(LoadError::Compiler(e)) => Err(format!("rejected:{}:{}", kind_name(&e.kind), e.to_string().split(": ").last().unwrap_or(""))),
        other => Err(other.verdict()),
    })
}

pub fn compare(before: &Sources, after: &Sources, steps: &[&str], r: &mut CaseReport) {
    let d0 = match doc_of(before) {
        Ok(Ok(d)) => d,
        _ => {
            r.label("original-not-a-document");
            return;
        }
    };
    r.label("compared");
    match doc_of(after) {
        Err(p) => r.fail(Failure::new(p.signature(), format!("the rewritten program ({steps:?}) makes the pipeline panic at {}: {}", p.location, p.message))),
        Ok(Err(verdict)) => {
            if verdict.contains("ill-formed recursion, not a schema") && rec_over_parameter(after) {
                r.label("rec-over-parameter");
            }
            r.fail(Failure::new(
                format!("c05:rewritten-program-{verdict}"),
                format!("after {steps:?} the program is no longer compiled to a document: {verdict}"),
            ))
        }
        Ok(Ok(d1)) => {
            if let Err(diff) = equivalent(&d1, &d0) {
                // The signature names the last rewrite and the place of the first difference.
                let path = diff.split(": ").next().unwrap_or("");
                let missing_key = diff[path.len()..].split('`').nth(1);
                let leaf = missing_key.or_else(|| path.rsplit('/').find(|s| !s.is_empty() && !s.chars().all(|c| c.is_ascii_digit()))).unwrap_or("");
                r.fail(Failure::new(format!("c05:document-changes:{}:{leaf}", steps.last().copied().unwrap_or("")), format!("after {steps:?}: {diff}")));
            }
        }
    }
}

/// Structural precondition of the known finding F17: some function body has a `rec` whose body is
/// (in parentheses or not) one of the function's parameters.
fn rec_over_parameter(sources: &Sources) -> bool {
    for text in sources.files.values() {
        let toks = crate::gen::text::split_tokens(text);
        let mut params: Vec<String> = Vec::new();
        let mut i = 0;
        while i < toks.len() {
            if toks[i] == "let" {
                params.clear();
                let mut j = i + 2;
                while j < toks.len() && toks[j] != "=" {
                    params.push(toks[j].clone());
                    j += 1;
                }
                i = j;
                continue;
            }
            if toks[i] == "rec" && i + 2 < toks.len() {
                let mut j = i + 2;
                while j < toks.len() && (toks[j] == "(" || toks[j].starts_with('#')) {
                    j += 1;
                }
                if j < toks.len() && params.contains(&toks[j]) {
                    return true;
                }
            }
            i += 1;
        }
    }
    false
}

/// Structural precondition of the known finding F19: the rewrites introduced a parameterless
/// declaration that is recursive in the rewritten program (so its uses are `$ref`s where the
/// original had the value inline) and annotations are in play at its value or at its uses: the
/// value may carry annotations written on its right-hand side (body head annotated, an
/// application or another name), or a use is annotated, passed as an argument or aliased (a `$ref`
/// cannot carry the description / title / required that the inline value would get there).
fn f19_site(before: &Program, after: &Program) -> bool {
    let fresh_from = before.binders.len();
    let recursive = analyse_cycles(after).recursive;
    let fresh: Vec<Bid> = after.decls().filter(|(_, d)| d.params.is_empty() && d.id >= fresh_from && recursive.contains(&d.id)).map(|(_, d)| d.id).collect();
    if fresh.is_empty() {
        return false;
    }
    fn peel(e: &E) -> &E {
        match e {
            E::Paren(i) => peel(i),
            other => other,
        }
    }
    let is_fresh = |e: &E| matches!(peel(e), E::Var(v) if v.binder.map_or(false, |b| fresh.contains(&b)));
    let mut hit = false;
    for (_, d) in after.decls() {
        if fresh.contains(&d.id) && matches!(peel(&d.body), E::Ann(..) | E::App(..) | E::Var(..)) {
            hit = true;
        }
        // An alias of the fresh declaration.
        if is_fresh(&d.body) {
            hit = true;
        }
    }
    let mut look = |e: &E| match e {
        E::Ann(_, _, inner) if is_fresh(inner) => hit = true,
        E::App(_, args) if args.iter().any(|a| is_fresh(a)) => hit = true,
        _ => {}
    };
    for m in &after.modules {
        for st in &m.stmts {
            match st {
                Stmt::Let(d) => d.body.visit(&mut look),
                Stmt::Res(e) => e.visit(&mut look),
                Stmt::Use(_) => {}
            }
        }
    }
    hit
}

impl Property for C05 {
    fn id(&self) -> &'static str {
        "C05"
    }
    fn tape_len(&self) -> usize {
        2600
    }
    fn cases(&self, tier: Tier) -> u64 {
        n_cases(tier)
    }
    fn rule(&self) -> String {
        "Cases: accepted generated programs (strict fragment, 1-3 modules, one in four in shadowing mode) and, for each, a tape-chosen sequence \
         of 1-4 rewrites applied at tape-chosen sites: (1) parenthesise any expression; (2) name a closed sub-expression with a fresh let \
         (incl. inside function and rec bodies) / inline an unannotated non-recursive non-@ parameterless let at its uses; (3) wrap a \
         sub-expression in a fresh single-use identity function / abstract a closed sub-expression out of a declaration body (let d = E[t] => \
         let w p = E[p]; let d = w t); (4) rename a binder consistently to a fresh name or (parameters, rec binders) to a declaration name its \
         scope does not mention, or rename an import qualifier; (5) permute top-level statements (resources keep their order); (6) lay the \
         tokens out with random whitespace, CRLF, line and block comments; (7) move a dependency-closed group of declarations of the main \
         module into a new module imported qualified or unqualified. Naming and wrapping sites are restricted to positions whose inherited \
         annotation map is empty by the language's flow rules. Oracle (metamorphic): the rewritten sources are accepted and compile to a \
         document R-eq to the original's (implicit components transparent). Programs with use-site annotations on shared references (X4, the \
         known order dependence F9) are outside the domain and counted. Non-trivial: the token sequence changed and the program has >= 1 \
         operation. Distinct by hash of (sources, rewritten sources)."
            .to_owned()
    }
    fn assumptions(&self) -> Vec<String> {
        vec![
            "eager evaluation makes naming/wrapping observable at positions that inherit annotations; such sites are not rewritten".into(),
            "inlining is restricted to unannotated declarations (declaration annotations and use-site annotations merge in an order a textual inlining cannot reproduce)".into(),
        ]
    }
    fn run_case(&self, tape: &mut Tape, ctx: &CaseCtx) -> CaseReport {
        let (shadow, stress) = match tape.choose(6) {
            0 => (true, false),
            1 | 2 => (true, true),
            _ => (false, false),
        };
        let cfg = GenCfg { shadowing: shadow, scope_stress: stress, ..GenCfg::strict() };
        let (prog, _) = Gen::new(tape, cfg).program();
        let before = to_sources(&render_plain(&prog));
        let mut r = CaseReport::default();
        // X4 programs are order dependent by the known finding F9.
        match order_dependent(&prog) {
            Some(false) => {}
            Some(true) => {
                r.label("excluded:X4");
                r.hash = before.hash64();
                return r;
            }
            None => {
                r.label("excluded:reference-cannot-evaluate");
                r.hash = before.hash64();
                return r;
            }
        }
        let recursive = analyse_cycles(&prog).recursive;
        let mut p2 = prog.clone();
        let n = tape.range(1, 4);
        let mut steps: Vec<&'static str> = Vec::new();
        for _ in 0..n {
            let step = match tape.choose(9) {
                0 => parenthesise(&mut p2, tape),
                1 => name_subexpression(&mut p2, tape),
                2 => inline_declaration(&mut p2, tape, &recursive),
                3 => wrap_in_function(&mut p2, tape),
                4 => abstract_out(&mut p2, tape),
                5 | 6 => rename_binder(&mut p2, tape),
                _ if stress => rename_all_locals(&mut p2, tape),
                7 => permute_statements(&mut p2, tape),
                _ => move_to_module(&mut p2, tape),
            };
            if let Some(s) = step {
                steps.push(s);
            }
        }
        // A rewrite can move an annotated use of a shared component to where it collides with another
        // use (same rec node, same scope): the rewritten program is then in the X4 class itself.
        if order_dependent(&p2) != Some(false) {
            r.label("excluded:X4-after-rewrite");
            r.hash = before.hash64();
            return r;
        }
        // Known finding F19: a freshly named annotated expression that lands on a cycle becomes a
        // reference declaration, whose uses no longer see the annotations written on its body.
        if f19_site(&prog, &p2) {
            r.label("excluded:F19-fresh-declaration-on-a-cycle-with-annotations");
            r.hash = before.hash64();
            return r;
        }
        let trivia = tape.chance(1, 3);
        let after = if trivia {
            steps.push("trivia");
            to_sources(&render_trivia(&p2, tape))
        } else {
            to_sources(&render_plain(&p2))
        };
        r.hash = {
            use std::hash::{Hash, Hasher};
            let mut h = std::collections::hash_map::DefaultHasher::new();
            (before.clone(), after.clone()).hash(&mut h);
            h.finish()
        };
        for s in &steps {
            r.label(format!("rewrite:{s}"));
        }
        compare(&before, &after, &steps, &mut r);
        r.evaluations = 2;
        r.nontrivial = before != after && r.has_label("compared") && before.files.values().any(|t| t.contains("->"));
        if ctx.want_rendered || r.failure.is_some() {
            r.rendered = Some(json!({"steps": steps, "before": before.to_json(), "after": after.to_json()}));
        }
        r
    }
    fn replay(&self, case: &Value) -> Option<Result<(), Failure>> {
        let before: Sources = serde_json::from_value(case.get("before")?.clone()).ok()?;
        let after: Sources = serde_json::from_value(case.get("after")?.clone()).ok()?;
        let mut r = CaseReport::default();
        compare(&before, &after, &["replay"], &mut r);
        Some(match r.failure {
            Some(f) => Err(f),
            None => Ok(()),
        })
    }
}
