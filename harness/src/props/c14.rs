//! C14 — a base description is preserved; only paths and schemas are replaced.

use crate::engine::{catch, CaseCtx, CaseReport, Failure, Property, Tier};
use crate::gen::ast::{render_plain, to_sources};
use crate::gen::base::{gen_base, to_yaml};
use crate::gen::typed::{Gen, GenCfg};
use crate::lspc::{run_cli, Scratch};
use crate::oal::*;
use crate::tape::Tape;
use serde_json::{json, Map, Value};
use std::cell::RefCell;

pub struct C14;

fn n_cases(tier: Tier) -> u64 {
    match tier {
        Tier::Quick => 250_000,
        Tier::Thorough => 2_000_000,
    }
}

fn split(doc: &Value) -> (Value, Value, Value) {
    // (frame, paths, schemas)
    let mut frame = doc.clone();
    let paths = frame.as_object_mut().and_then(|m| m.remove("paths")).unwrap_or(Value::Null);
    let mut schemas = Value::Null;
    let mut drop_components = false;
    if let Some(c) = frame.get_mut("components").and_then(|c| c.as_object_mut()) {
        schemas = c.remove("schemas").unwrap_or(Value::Null);
        drop_components = c.is_empty();
    }
    if drop_components {
        // `components` absent is the same as `components: {}`.
        frame.as_object_mut().unwrap().remove("components");
    }
    let empty = |v: Value| if v.is_null() { Value::Object(Map::new()) } else { v };
    (frame, empty(paths), empty(schemas))
}

fn frame_check(base: &openapiv3::OpenAPI, with_base: &openapiv3::OpenAPI, without: &openapiv3::OpenAPI) -> Result<(), Failure> {
    let b = serde_json::to_value(base).unwrap();
    let o = serde_json::to_value(with_base).unwrap();
    let p = serde_json::to_value(without).unwrap();
    let (bf, _, _) = split(&b);
    let (of, opaths, oschemas) = split(&o);
    let (_, ppaths, pschemas) = split(&p);
    if of != bf {
        // Name the first differing top-level key.
        let keys: std::collections::BTreeSet<&String> = of.as_object().unwrap().keys().chain(bf.as_object().unwrap().keys()).collect();
        let k = keys.into_iter().find(|k| of.get(*k) != bf.get(*k)).cloned().unwrap_or_default();
        return Err(Failure::new(
            format!("c14:base-not-preserved:{k}"),
            format!("`{k}` of the base is {} but the output has {}", bf.get(&k).map(|v| v.to_string()).unwrap_or("<absent>".into()), of.get(&k).map(|v| v.to_string()).unwrap_or("<absent>".into())),
        ));
    }
    if opaths != ppaths {
        return Err(Failure::new("c14:paths-not-from-program", "the paths of the output with a base differ from the paths of the base-less output".to_owned()));
    }
    if oschemas != pschemas {
        return Err(Failure::new(
            "c14:schemas-not-from-program",
            format!("components.schemas with a base: {oschemas}; without: {pschemas}"),
        ));
    }
    Ok(())
}

thread_local! {
    static DIR: RefCell<Option<Scratch>> = const { RefCell::new(None) };
}

pub fn check_pair(sources: &Sources, base_yaml: &str, through_cli: bool, r: &mut CaseReport) -> &'static str {
    let base = match serde_yaml::from_str::<openapiv3::OpenAPI>(base_yaml) {
        Ok(b) => b,
        Err(e) => {
            r.fail(Failure::new("c14:harness-base", format!("the generated base does not deserialize: {e}")));
            return "harness";
        }
    };
    let without = match catch(|| pipeline(sources, None)) {
        Ok(Outcome::Document { api, .. }) => api,
        _ => return "no-document",
    };
    let with_base = match catch(|| pipeline(sources, Some(base.clone()))) {
        Ok(Outcome::Document { api, .. }) => api,
        Ok(_) => {
            r.fail(Failure::new("c14:base-changes-verdict", "the program compiles without a base but not with one".to_owned()));
            return "document";
        }
        Err(p) => {
            r.fail(Failure::new(p.signature(), format!("panic with a base at {}: {}", p.location, p.message)));
            return "document";
        }
    };
    if let Err(f) = frame_check(&base, &with_base, &without) {
        r.fail(f);
        return "document";
    }
    // The base is a stale copy of the program's own output: every path and every schema name
    // the program emits is already in the base, with other contents, next to one schema and one
    // path only the base has. All of them are replaced, none survives.
    {
        let p = serde_json::to_value(&without).unwrap();
        let (_, ppaths, pschemas) = split(&p);
        let mut b = serde_json::to_value(&base).unwrap();
        let mut stale_paths = Map::new();
        for k in ppaths.as_object().map(|m| m.keys().cloned().collect::<Vec<_>>()).unwrap_or_default() {
            stale_paths.insert(k, json!({"description": "STALE"}));
        }
        stale_paths.insert("/stale-only".to_owned(), json!({"description": "STALE"}));
        let mut stale_schemas = Map::new();
        let names = pschemas.as_object().map(|m| m.keys().cloned().collect::<Vec<_>>()).unwrap_or_default();
        for k in &names {
            stale_schemas.insert(k.clone(), json!({"type": "boolean", "description": "STALE"}));
        }
        stale_schemas.insert("stale-only".to_owned(), json!({"type": "boolean", "description": "STALE"}));
        let m = b.as_object_mut().unwrap();
        m.insert("paths".to_owned(), Value::Object(stale_paths));
        let comps = m.entry("components".to_owned()).or_insert_with(|| json!({}));
        if !comps.is_object() {
            *comps = json!({});
        }
        comps.as_object_mut().unwrap().insert("schemas".to_owned(), Value::Object(stale_schemas));
        if let Ok(stale) = serde_json::from_value::<openapiv3::OpenAPI>(b) {
            r.label("stale-own-output-as-base");
            if !names.is_empty() {
                r.label("stale-base-shares-schema-names");
            }
            match catch(|| pipeline(sources, Some(stale.clone()))) {
                Ok(Outcome::Document { api, .. }) => {
                    if let Err(mut f) = frame_check(&stale, &api, &without) {
                        f.signature = format!("{}:stale-own-output", f.signature);
                        r.fail(f);
                        return "document";
                    }
                }
                Ok(_) => {
                    r.fail(Failure::new("c14:base-changes-verdict:stale-own-output", "the program compiles without a base but not on a stale copy of its own output".to_owned()));
                    return "document";
                }
                Err(p) => {
                    r.fail(Failure::new(p.signature(), format!("panic with a stale copy of the own output as base at {}: {}", p.location, p.message)));
                    return "document";
                }
            }
        }
    }
    if through_cli {
        r.label("through-cli");
        DIR.with(|d| {
            let mut d = d.borrow_mut();
            let dir = d.get_or_insert_with(|| Scratch::new("c14"));
            let _ = std::fs::remove_dir_all(&dir.path);
            std::fs::create_dir_all(&dir.path).ok();
            for (name, text) in &sources.files {
                dir.write(name, text);
            }
            dir.write("base.yaml", base_yaml);
            // The three ways to name a base: the option, the configuration file, and the option
            // over a configuration file that names another (valid) base: the option wins.
            dir.write("decoy.yaml", "openapi: 3.0.3\ninfo:\n  title: decoy\n  version: '0'\npaths: {}\n");
            let how = sources.hash64() % 3;
            let res = match how {
                0 => run_cli(&dir.path, &["-m", &sources.main, "-t", "out.yaml", "-b", "base.yaml"]),
                1 => {
                    dir.write("oal.toml", &format!("[api]\nmain = \"{}\"\ntarget = \"out.yaml\"\nbase = \"base.yaml\"\n", sources.main));
                    run_cli(&dir.path, &["-c", "oal.toml"])
                }
                _ => {
                    dir.write("oal.toml", &format!("[api]\nmain = \"{}\"\ntarget = \"out.yaml\"\nbase = \"decoy.yaml\"\n", sources.main));
                    run_cli(&dir.path, &["-c", "oal.toml", "-b", "base.yaml"])
                }
            };
            r.label(["cli-base:option", "cli-base:config", "cli-base:option-over-config"][how as usize]);
            if res.code != Some(0) {
                r.fail(Failure::new("c14:cli-fails-with-base", format!("oal-cli with a base exits with {}: {}", res.status, res.stderr)));
                return;
            }
            let text = std::fs::read_to_string(dir.path.join("out.yaml")).unwrap_or_default();
            match serde_yaml::from_str::<openapiv3::OpenAPI>(&text) {
                Err(e) => r.fail(Failure::new("c14:cli-output-unreadable", e.to_string())),
                Ok(cli_api) => {
                    // hash-* names depend on the locator: compare the frame only, and the shapes of paths.
                    let (cf, cpaths, _) = split(&serde_json::to_value(&cli_api).unwrap());
                    let (bf, _, _) = split(&serde_json::to_value(&base).unwrap());
                    let (_, ppaths, _) = split(&serde_json::to_value(&without).unwrap());
                    if cf != bf {
                        r.fail(Failure::new("c14:cli-base-not-preserved", "the frame of the CLI output differs from the base".to_owned()));
                    } else if cpaths.as_object().map(|m| m.keys().cloned().collect::<Vec<_>>()) != ppaths.as_object().map(|m| m.keys().cloned().collect::<Vec<_>>()) {
                        r.fail(Failure::new("c14:cli-paths", "the CLI output has other path keys than the program denotes".to_owned()));
                    } else {
                        // The base is edited (nothing else) and the same command runs again into the
                        // same target: the output is built on the new base.
                        let decoy = "openapi: 3.0.3\ninfo:\n  title: second base\n  version: '2'\npaths: {}\n";
                        dir.write("base.yaml", decoy);
                        let again = match how {
                            0 => run_cli(&dir.path, &["-m", &sources.main, "-t", "out.yaml", "-b", "base.yaml"]),
                            1 => run_cli(&dir.path, &["-c", "oal.toml"]),
                            _ => run_cli(&dir.path, &["-c", "oal.toml", "-b", "base.yaml"]),
                        };
                        let text2 = std::fs::read_to_string(dir.path.join("out.yaml")).unwrap_or_default();
                        let want = serde_yaml::from_str::<openapiv3::OpenAPI>(decoy).ok().map(|d| split(&serde_json::to_value(&d).unwrap()).0);
                        let got = serde_yaml::from_str::<openapiv3::OpenAPI>(&text2).ok().map(|d| split(&serde_json::to_value(&d).unwrap()).0);
                        r.label("cli-base-edited-and-rerun");
                        if again.code != Some(0) || want.is_none() || got != want {
                            r.fail(Failure::new(
                                "c14:cli-stale-base",
                                format!("after the base file was replaced and the same command run again (exit {}), the frame of the target is not that of the new base", again.status),
                            ));
                        }
                    }
                }
            }
        });
    }
    "document"
}

impl Property for C14 {
    fn id(&self) -> &'static str {
        "C14"
    }
    fn tape_len(&self) -> usize {
        1700
    }
    fn cases(&self, tier: Tier) -> u64 {
        n_cases(tier)
    }
    fn rule(&self) -> String {
        "Cases: generated base documents over the OpenAPI object model (info with licence/contact/extensions, servers absent / empty / with \
         variables, security, tags with externalDocs, externalDocs, top-level extensions, components with securitySchemes, responses, \
         parameters, examples, requestBodies, headers, links and extensions; half of them with paths and schemas of their own) x accepted \
         generated programs (with and without schema components). Oracle: with B = the base as read by serde_yaml::from_str::<OpenAPI>, O = \
         Builder::new(spec).with_base(B).into_openapi(), P = the base-less output: O minus {paths, components.schemas} equals B minus the same \
         (components absent == {}), O.paths == P.paths, O.components.schemas == P.components.schemas; then the same three equations with B' = B whose paths and components.schemas hold every path and schema name of P with stale contents plus one path and one schema of its own (a stale copy of the own output as base); 1 pair in 12 also goes through the real \
         oal-cli --base. Non-trivial: a base with >= 1 non-schema component map and >= 1 of {security, tags, server variables, own paths, own \
         schemas}. Distinct by hash of (sources, base)."
            .to_owned()
    }
    fn assumptions(&self) -> Vec<String> {
        vec!["`the base` means the document as deserialised by the openapiv3 model the tool itself uses (unknown keys outside extensions are not part of it)".into()]
    }
    fn run_case(&self, tape: &mut Tape, ctx: &CaseCtx) -> CaseReport {
        let (base, info) = gen_base(tape);
        let base_yaml = to_yaml(&base);
        let cfg = if tape.chance(1, 2) { GenCfg::strict() } else { GenCfg { max_decls: 3, max_depth: 2, max_resources: 1, ..GenCfg::strict() } };
        let (prog, _) = Gen::new(tape, cfg).program();
        let sources = to_sources(&render_plain(&prog));
        let mut r = CaseReport::default();
        r.hash = {
            use std::hash::{Hash, Hasher};
            let mut h = std::collections::hash_map::DefaultHasher::new();
            sources.hash(&mut h);
            base_yaml.hash(&mut h);
            h.finish()
        };
        let through_cli = tape.chance(1, 8);
        let class = check_pair(&sources, &base_yaml, through_cli, &mut r);
        r.evaluations = 3;
        r.label(format!("class:{class}"));
        if info.has_paths {
            r.label("base-has-paths");
        }
        if info.has_schemas {
            r.label("base-has-schemas");
        }
        r.nontrivial = class == "document" && info.non_schema_components >= 1 && (info.extras >= 1 || info.has_paths || info.has_schemas);
        if ctx.want_rendered || r.failure.is_some() {
            r.rendered = Some(json!({"sources": sources.to_json(), "base": base_yaml}));
        }
        r
    }
    fn replay(&self, case: &Value) -> Option<Result<(), Failure>> {
        let sources: Sources = serde_json::from_value(case.get("sources")?.clone()).ok()?;
        let base = case.get("base")?.as_str()?;
        let mut r = CaseReport::default();
        check_pair(&sources, base, true, &mut r);
        Some(match r.failure {
            Some(f) => Err(f),
            None => Ok(()),
        })
    }
}
