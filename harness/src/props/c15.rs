//! C15 — language-server answers depend only on current texts, not on the edit history.

use crate::engine::{CaseCtx, CaseReport, Failure, Property, Tier};
use crate::gen::ast::*;
use crate::gen::text::split_tokens;
use crate::gen::typed::{Gen, GenCfg};
use crate::lspc::{Lsp, LspError};
use crate::lspcheck::*;
use crate::tape::Tape;
use serde::{Deserialize, Serialize};
use serde_json::{json, Value};
use std::collections::{BTreeMap, BTreeSet};

pub struct C15;

fn n_cases(tier: Tier) -> u64 {
    match tier {
        Tier::Quick => 10_000,
        Tier::Thorough => 150_000,
    }
}

#[derive(Clone, Debug, Serialize, Deserialize, PartialEq)]
#[serde(tag = "op", rename_all = "lowercase")]
pub enum Op {
    Open { doc: String, text: String },
    /// Edits: (range as [l0,c0,l1,c1] or null for full text, new text)
    Change { doc: String, edits: Vec<(Option<[u32; 4]>, String)> },
    Close { doc: String },
    Barrier,
    Request { kind: String, doc: String, pos: [u32; 2] },
    /// The file of a module that is not open disappears from the disk (another program removes
    /// it); the generator lets a notification about another document follow, because a server
    /// without file watching only looks at the disk again when it is told about a change.
    Delete { doc: String },
}

#[derive(Clone, Debug, Serialize, Deserialize, PartialEq)]
pub struct History {
    pub main: String,
    pub files: BTreeMap<String, String>,
    pub ops: Vec<Op>,
}

fn lsp_fail(e: LspError, what: &str, r: &mut CaseReport) {
    match e {
        LspError::Died(st, err) => {
            let site = crate::props::c04::panic_site(&err);
            // A Rust panic keeps the signature format of the other checks (same root causes, other door).
            let sig = if site.contains(".rs:") { format!("panic:{site}") } else { format!("c15:server-died:{st}:{site}") };
            r.fail(Failure::new(sig, format!("oal-lsp died ({st}) during {what}: {err}")));
        }
        LspError::Timeout => r.label("lsp-timeout-inconclusive"),
        LspError::Protocol(m) => r.fail(Failure::new("c15:protocol", format!("{what}: {m}"))),
    }
}

fn method_of(kind: &str) -> &'static str {
    match kind {
        "definition" => "textDocument/definition",
        "references" => "textDocument/references",
        _ => "textDocument/prepareRename",
    }
}

fn ask(lsp: &mut Lsp, ws: &Workspace, kind: &str, doc: &str, pos: Pos) -> Result<Value, LspError> {
    let extra = if kind == "references" { json!({"context": {"includeDeclaration": false}}) } else { json!({}) };
    let v = lsp.position_request(method_of(kind), &ws.uri(doc), pos, extra)?;
    // References come back in map iteration order: compare as a sorted list.
    Ok(if kind == "references" {
        let mut a: Vec<String> = v.as_array().cloned().unwrap_or_default().iter().map(|x| x.to_string()).collect();
        a.sort();
        json!(a)
    } else {
        v
    })
}

fn diag_view(lsp: &Lsp) -> BTreeMap<String, Vec<String>> {
    let mut m = BTreeMap::new();
    for (uri, ds) in &lsp.diags {
        let mut v: Vec<String> = ds.iter().map(|d| format!("{} {}", d.get("range").map(|r| r.to_string()).unwrap_or_default(), d.get("message").and_then(|m| m.as_str()).unwrap_or(""))).collect();
        v.sort();
        if !v.is_empty() {
            m.insert(uri.clone(), v);
        }
    }
    m
}

/// Runs a history on the real server and compares with a fresh server handed the final texts.
pub fn check_history(h: &History, r: &mut CaseReport) {
    let ws = Workspace::create("c15", &h.files, &h.main);
    let mut lsp = match ws.start() {
        Ok(l) => l,
        Err(e) => return lsp_fail(e, "start", r),
    };
    // The client-side model of the open documents.
    let mut open: BTreeMap<String, String> = BTreeMap::new();
    let mut deleted: BTreeSet<String> = BTreeSet::new();
    let mut messages = 0u64;
    for (i, op) in h.ops.iter().enumerate() {
        messages += 1;
        let res = match op {
            Op::Delete { doc } => {
                let _ = std::fs::remove_file(ws.dir.path.join(doc));
                deleted.insert(doc.clone());
                Ok(())
            }
            Op::Open { doc, text } => {
                open.insert(doc.clone(), text.clone());
                lsp.did_open(&ws.uri(doc), text)
            }
            Op::Close { doc } => {
                open.remove(doc);
                lsp.did_close(&ws.uri(doc))
            }
            Op::Change { doc, edits } => {
                let Some(text) = open.get_mut(doc) else { continue };
                let mut wire = Vec::new();
                for (rg, new) in edits {
                    match rg {
                        None => *text = new.clone(),
                        Some([l0, c0, l1, c1]) => match apply_edits(text, &[(((*l0, *c0), (*l1, *c1)), new.clone())]) {
                            Ok(t) => *text = t,
                            Err(e) => {
                                r.fail(Failure::new("c15:harness-edit", e));
                                return;
                            }
                        },
                    }
                    wire.push((rg.map(|[a, b, c, d]| ((a, b), (c, d))), new.clone()));
                }
                lsp.did_change(&ws.uri(doc), &wire)
            }
            Op::Barrier => lsp.barrier(&ws.uri(&h.main)),
            Op::Request { kind, doc, pos } => ask(&mut lsp, &ws, kind, doc, (pos[0], pos[1])).map(|_| ()),
        };
        if let Err(e) = res {
            label_final_state(h, &open, r);
            return lsp_fail(e, &format!("operation #{i} {op:?}"), r);
        }
        if !lsp.alive() {
            r.fail(Failure::new("c15:server-died:silently", format!("the server exited after operation #{i} {op:?}")));
            return;
        }
    }
    if let Err(e) = lsp.barrier(&ws.uri(&h.main)) {
        label_final_state(h, &open, r);
        return lsp_fail(e, "final barrier", r);
    }
    // The fresh server: same directory, the open documents with their final texts.
    let mut fresh = match ws.start() {
        Ok(l) => l,
        Err(e) => return lsp_fail(e, "start (fresh)", r),
    };
    for (doc, text) in &open {
        if let Err(e) = fresh.did_open(&ws.uri(doc), text) {
            return lsp_fail(e, "didOpen (fresh)", r);
        }
    }
    if let Err(e) = fresh.barrier(&ws.uri(&h.main)) {
        return lsp_fail(e, "barrier (fresh)", r);
    }
    let (dh, df) = (diag_view(&lsp), diag_view(&fresh));
    if dh != df {
        let uris: BTreeSet<&String> = dh.keys().chain(df.keys()).collect();
        let u = uris.into_iter().find(|u| dh.get(*u) != df.get(*u)).unwrap();
        let file = ws.file_of_uri(u).unwrap_or(u.clone());
        let stale = dh.get(u).is_some() && df.get(u).is_none();
        r.fail(Failure::new(
            if stale { "c15:stale-diagnostics" } else { "c15:diagnostics-differ" },
            format!("{file}: after the history the server has published {:?}; a fresh server given the final texts publishes {:?}", dh.get(u), df.get(u)),
        ));
        return;
    }
    // An absolute check next to the differential one: diagnostics are published exactly when the
    // final program is at fault (a differential oracle alone cannot see a server that never
    // publishes: the fresh server would be just as silent).
    {
        let mut files = h.files.clone();
        for d in &deleted {
            files.remove(d);
        }
        for (d, t) in &open {
            files.insert(d.clone(), t.clone());
        }
        let sources = crate::oal::Sources { main: h.main.clone(), files };
        let fault: Result<Option<String>, _> = crate::engine::catch(|| match crate::oal::load_lenient(&sources) {
            Err(e) => Some(format!("load: {e:?}")),
            Ok(mods) => {
                let lexical = mods.locators().find_map(|l| {
                    let name = crate::oal::name_of(l);
                    let errs = sources.files.get(&name).map(|t| oal_syntax::parse::<_, oal_compiler::tree::Core>(l.clone(), t.clone()).1).unwrap_or_default();
                    errs.first().map(|e| format!("syntax in {name}: {e}"))
                });
                lexical.or_else(|| oal_compiler::eval::eval(&mods).err().map(|e| format!("evaluation: {e}")))
            }
        });
        if let Ok(fault) = fault {
            let faulty = fault.is_some();
            if faulty == df.is_empty() {
                r.fail(Failure::new(
                    "c15:diagnostics-vs-verdict",
                    format!(
                        "the final program is {} but a fresh server given the final texts has {} published (and the server after the history {})",
                        if faulty { format!("at fault ({})", fault.clone().unwrap_or_default().chars().take(300).collect::<String>()) } else { "accepted by the in-process pipeline".to_owned() },
                        if df.is_empty() { "no diagnostic".to_owned() } else { format!("{df:?}") },
                        if dh.is_empty() { "none either".to_owned() } else { "some".to_owned() }
                    ),
                ));
                return;
            }
        }
    }
    // Answers at sampled positions (identifier-looking starts plus a grid).
    let mut asked = 0u64;
    for (doc, disk) in &h.files {
        if deleted.contains(doc) && !open.contains_key(doc) {
            continue;
        }
        let text = open.get(doc).unwrap_or(disk);
        let mut offsets: BTreeSet<usize> = BTreeSet::new();
        let mut o = 0usize;
        for tok in split_tokens(text) {
            if let Some(p) = text[o..].find(&tok) {
                let at = o + p;
                if tok.chars().next().map_or(false, |c| c.is_ascii_alphabetic() || c == '@' || c == '_') {
                    offsets.insert(at);
                    offsets.insert(at + tok.len() / 2);
                }
                o = at + tok.len();
            }
        }
        let step = (text.len() / 12).max(1);
        for k in (0..=text.len()).step_by(step) {
            offsets.insert(k);
        }
        for off in offsets.into_iter().take(60) {
            if !text.is_char_boundary(off) || (off > 0 && off < text.len() && text.as_bytes()[off - 1] == b'\r' && text.as_bytes()[off] == b'\n') {
                continue;
            }
            let pos = pos_of(text, off);
            for kind in ["definition", "references", "prepareRename"] {
                asked += 1;
                let a = match ask(&mut lsp, &ws, kind, doc, pos) {
                    Ok(v) => v,
                    Err(e) => return lsp_fail(e, &format!("{kind} at {doc}@{off} after the history"), r),
                };
                let b = match ask(&mut fresh, &ws, kind, doc, pos) {
                    Ok(v) => v,
                    Err(e) => return lsp_fail(e, &format!("{kind} at {doc}@{off} on the fresh server"), r),
                };
                if a != b {
                    r.fail(Failure::new(
                        format!("c15:answer-differs:{kind}"),
                        format!("{kind} at {doc}@{off} {pos:?}: after the history {a}, fresh server {b}"),
                    ));
                    return;
                }
            }
        }
    }
    r.evaluations = messages + asked;
    r.count("messages", messages + asked);
    if !df.is_empty() {
        r.label("final-state:rejected");
    } else {
        r.label("final-state:accepted");
    }
}

/// Structural labels of the program the server currently sees (preconditions of known findings).
fn label_final_state(h: &History, open: &BTreeMap<String, String>, r: &mut CaseReport) {
    let mut files = h.files.clone();
    for op in &h.ops {
        if let Op::Delete { doc } = op {
            files.remove(doc);
        }
    }
    for (d, t) in open {
        files.insert(d.clone(), t.clone());
    }
    let sources = crate::oal::Sources { main: h.main.clone(), files };
    if let Ok(Ok(mods)) = crate::engine::catch(|| crate::oal::load_lenient(&sources)) {
        for l in crate::oal::structural_labels(&mods) {
            r.label(l);
        }
    }
}

const INSERTS: [&str; 14] = ["", "x", " ", "\u{e9}", "\u{20ac}", "\u{1F600}", "\n", "\r\n", ";", "let z9 = num;\n", "// c\u{1F600}\n", "/* \u{e9} */", "'", "\""];

fn boundaries(text: &str) -> Vec<usize> {
    (0..=text.len())
        .filter(|o| text.is_char_boundary(*o) && !(*o > 0 && *o < text.len() && text.as_bytes()[*o - 1] == b'\r' && text.as_bytes()[*o] == b'\n'))
        .collect()
}

fn raw_edit(text: &str, t: &mut Tape, r: &mut CaseReport) -> (Option<[u32; 4]>, String) {
    let bs = boundaries(text);
    let i = t.choose(bs.len());
    let j = (i + t.small(6)).min(bs.len() - 1);
    let (a, b) = (bs[i], bs[j]);
    let (mut s, mut e) = (pos_of(text, a), pos_of(text, b));
    match t.choose(8) {
        0 => {
            // beyond the end of the line: must clamp
            e = (e.0, e.1 + 1 + t.choose(9) as u32);
            // keep the model consistent: the clamped end must not come before the start
            if s.0 == e.0 {
                let line_end = crate::props::c16::ref_pos_to_offset(text, (e.0, u32::MAX / 2)).unwrap_or(text.len());
                if crate::props::c16::ref_pos_to_offset(text, e).unwrap_or(line_end) < a {
                    s = e;
                }
            }
            r.label("edit:clamped-column");
        }
        1 => {
            // at the very end of the text
            s = pos_of(text, text.len());
            e = s;
            r.label("edit:end-of-file");
        }
        2 => {
            // a line beyond the last one
            let lines = text.matches('\n').count() as u32;
            s = (lines + 1 + t.choose(3) as u32, t.choose(5) as u32);
            e = s;
            r.label("edit:line-beyond-end");
        }
        _ => {}
    }
    let ins = t.pick(&INSERTS);
    if !text[a..b].is_ascii() || !ins.is_ascii() {
        r.label("edit:non-ascii");
    }
    if ins.contains('\u{1F600}') || text[a..b].contains('\u{1F600}') {
        r.label("edit:astral");
    }
    if text[..a].ends_with('\n') || text[b..].starts_with('\r') || ins.contains("\r\n") {
        r.label("edit:crlf-adjacent");
    }
    (Some([s.0, s.1, e.0, e.1]), ins.to_owned())
}

fn meaningful_edit(text: &str, disk: &str, t: &mut Tape, r: &mut CaseReport) -> (Option<[u32; 4]>, String) {
    let find_all = |needle: &str| -> Vec<usize> { text.match_indices(needle).map(|(i, _)| i).collect() };
    match t.choose(6) {
        0 => {
            // delete a `;`
            let semis = find_all(";");
            if let Some(&i) = semis.get(t.choose(semis.len().max(1))) {
                let (s, e) = (pos_of(text, i), pos_of(text, i + 1));
                r.label("edit:delete-semicolon");
                return (Some([s.0, s.1, e.0, e.1]), String::new());
            }
        }
        1 => {
            // repair: back to the text on disk
            r.label("edit:full-text-repair");
            return (None, disk.to_owned());
        }
        2 => {
            // remove a use statement
            if let Some(i) = text.find("use ") {
                if let Some(j) = text[i..].find(';') {
                    let (s, e) = (pos_of(text, i), pos_of(text, i + j + 1));
                    r.label("edit:remove-use");
                    return (Some([s.0, s.1, e.0, e.1]), String::new());
                }
            }
        }
        3 => {
            // rename one occurrence of an identifier-looking word
            let toks = split_tokens(text);
            let words: Vec<&String> = toks.iter().filter(|w| w.len() <= 3 && w.chars().all(|c| c.is_ascii_lowercase())).collect();
            if !words.is_empty() {
                let w = words[t.choose(words.len())];
                let occ = find_all(w);
                if let Some(&i) = occ.get(t.choose(occ.len().max(1))) {
                    let (s, e) = (pos_of(text, i), pos_of(text, i + w.len()));
                    r.label("edit:rename-occurrence");
                    return (Some([s.0, s.1, e.0, e.1]), "zz9".to_owned());
                }
            }
        }
        4 => {
            // a new declaration at the end
            let p = pos_of(text, text.len());
            r.label("edit:add-declaration");
            return (Some([p.0, p.1, p.0, p.1]), "\nlet zz8 = { 'k str };\n".to_owned());
        }
        _ => {}
    }
    raw_edit(text, t, r)
}

pub fn gen_history(t: &mut Tape, r: &mut CaseReport) -> History {
    let cfg = GenCfg { shadowing: t.chance(1, 2), max_decls: 7, max_resources: 2, max_depth: 3, max_modules: 3, ..GenCfg::strict() };
    let (prog, _) = Gen::new(t, cfg).program();
    let rendered = if t.chance(2, 3) { render_trivia(&prog, t) } else { render_plain(&prog) };
    let mut files = BTreeMap::new();
    for x in &rendered {
        files.insert(x.file.clone(), x.text.clone());
    }
    let names: Vec<String> = files.keys().cloned().collect();
    let main = rendered[0].file.clone();
    let mut open: BTreeMap<String, String> = BTreeMap::new();
    let mut ops = Vec::new();
    let n = t.range(1, 25);
    let mut closes = 0;
    let mut opens = 0;
    for _ in 0..n {
        let doc = t.pick_ref(&names).clone();
        match t.weighted(&[3, 8, 2, 2, 3]) {
            0 => {
                if !open.contains_key(&doc) {
                    let mut text = files[&doc].clone();
                    if t.chance(1, 3) {
                        // opened with unsaved changes
                        let mut dummy = CaseReport::default();
                        let (rg, new) = meaningful_edit(&text, &files[&doc], t, &mut dummy);
                        if let Some([a, b, c, d]) = rg {
                            if let Ok(x) = apply_edits(&text, &[(((a, b), (c, d)), new)]) {
                                text = x;
                            }
                        }
                    }
                    open.insert(doc.clone(), text.clone());
                    ops.push(Op::Open { doc, text });
                    opens += 1;
                }
            }
            1 => {
                if let Some(text) = open.get(&doc).cloned() {
                    let k = t.range(1, 3);
                    let mut cur = text;
                    let mut edits = Vec::new();
                    for _ in 0..k {
                        let (rg, new) = if t.chance(1, 2) { raw_edit(&cur, t, r) } else { meaningful_edit(&cur, &files[&doc], t, r) };
                        match rg {
                            None => cur = new.clone(),
                            Some([a, b, c, d]) => match apply_edits(&cur, &[(((a, b), (c, d)), new.clone())]) {
                                Ok(x) => cur = x,
                                Err(_) => continue,
                            },
                        }
                        edits.push((rg, new));
                    }
                    if !edits.is_empty() {
                        open.insert(doc.clone(), cur);
                        ops.push(Op::Change { doc, edits });
                    }
                }
            }
            2 => {
                if open.remove(&doc).is_some() {
                    ops.push(Op::Close { doc });
                    closes += 1;
                }
            }
            3 => ops.push(Op::Barrier),
            _ => {
                let text = open.get(&doc).unwrap_or(&files[&doc]);
                let bs = boundaries(text);
                let off = bs[t.choose(bs.len())];
                let p = pos_of(text, off);
                let kind = t.pick(&["definition", "references", "prepareRename"]).to_owned();
                ops.push(Op::Request { kind, doc, pos: [p.0, p.1] });
            }
        }
    }
    // One history in eight: a module that is not open (and not opened later) is removed from the
    // disk at some point, and the editor then touches the main module.
    if names.len() >= 2 && t.chance(1, 8) {
        let victim = t.pick_ref(&names[..]).clone();
        if victim != main {
            // After the last operation that mentions the victim.
            let last = ops.iter().rposition(|op| match op {
                Op::Open { doc, .. } | Op::Change { doc, .. } | Op::Close { doc } | Op::Request { doc, .. } | Op::Delete { doc } => *doc == victim,
                Op::Barrier => false,
            });
            let from = last.map_or(0, |i| i + 1);
            // The victim must be closed at that point.
            let mut is_open = false;
            for op in &ops[..from] {
                match op {
                    Op::Open { doc, .. } if *doc == victim => is_open = true,
                    Op::Close { doc } if *doc == victim => is_open = false,
                    _ => {}
                }
            }
            if !is_open {
                let at = t.range(from, ops.len());
                // The state of the main module at that point.
                let mut main_text: Option<String> = None;
                for op in &ops[..at] {
                    match op {
                        Op::Open { doc, text } if *doc == main => main_text = Some(text.clone()),
                        Op::Close { doc } if *doc == main => main_text = None,
                        Op::Change { doc, edits } if *doc == main => {
                            if let Some(cur) = main_text.as_mut() {
                                for (rg, new) in edits {
                                    match rg {
                                        None => *cur = new.clone(),
                                        Some([a, b, c, d]) => {
                                            if let Ok(x) = apply_edits(cur, &[(((*a, *b), (*c, *d)), new.clone())]) {
                                                *cur = x;
                                            }
                                        }
                                    }
                                }
                            }
                        }
                        _ => {}
                    }
                }
                let touch = match main_text {
                    Some(text) => Op::Change { doc: main.clone(), edits: vec![(None, text)] },
                    None => Op::Open { doc: main.clone(), text: files[&main].clone() },
                };
                // If main gets opened here, a later Open of main in the history would be a protocol
                // error: only insert when main is not opened later.
                let opened_later = ops[at..].iter().any(|op| matches!(op, Op::Open { doc, .. } if *doc == main));
                if matches!(touch, Op::Change { .. }) || !opened_later {
                    ops.insert(at, touch);
                    ops.insert(at, Op::Delete { doc: victim });
                    r.label("with-delete");
                }
            }
        }
    }
    if closes >= 1 {
        r.label("with-close");
    }
    if opens >= 2 {
        r.label("opens>=2");
    }
    History { main, files, ops }
}

impl Property for C15 {
    fn id(&self) -> &'static str {
        "C15"
    }
    fn tape_len(&self) -> usize {
        3500
    }
    fn cases(&self, tier: Tier) -> u64 {
        n_cases(tier)
    }
    fn rule(&self) -> String {
        "Cases: a workspace (oal.toml, main.oal, 0-2 modules from a generated program, two thirds laid out with CRLF and comments holding 2-, \
         3- and 4-byte characters) and a protocol-valid history of 1-25 operations: didOpen (disk text or with unsaved changes), didChange \
         with 1-3 incremental or full-text edits, didClose, barrier, and definition / references / prepareRename requests. Edits are raw (any \
         UTF-16 range between character boundaries; columns beyond the end of a line, lines beyond the end of the text, insertions at end of \
         file; inserting nothing, ASCII, 2/3/4-byte characters, LF, CRLF, quotes, comments) or meaningful (delete a `;`, repair to the disk \
         text, remove a `use`, rename one occurrence, append a declaration). Oracle: the harness keeps its own model of every open document \
         (edits applied through R-pos); after the history a fresh oal-lsp on the same directory is handed the model's final texts; the last \
         published diagnostics per URI (absent == empty) and the answers to definition / references (as sets) / prepareRename at up to 60 \
         positions per document must be equal between the two servers; the server must answer every request and stay alive after every \
         message. evaluations counts messages. Non-trivial: a history with an incremental edit at a non-ASCII or CRLF-adjacent position and a \
         close or a second open. Distinct by hash of the history."
            .to_owned()
    }
    fn assumptions(&self) -> Vec<String> {
        vec![
            "histories are protocol-valid: change/close only on open documents, ranges with start <= end between character boundaries, requests only on documents that are open or on disk".into(),
            "the idle refresh (1 s timer) is real-time behaviour and is not exercised: every comparison is preceded by a request, which forces the refresh".into(),
            "files on disk do not change during a history".into(),
        ]
    }
    fn run_case(&self, tape: &mut Tape, ctx: &CaseCtx) -> CaseReport {
        let mut r = CaseReport::default();
        let h = gen_history(tape, &mut r);
        r.hash = {
            use std::hash::{Hash, Hasher};
            let mut hs = std::collections::hash_map::DefaultHasher::new();
            serde_json::to_string(&h).unwrap().hash(&mut hs);
            hs.finish()
        };
        check_history(&h, &mut r);
        r.nontrivial = (r.has_label("edit:non-ascii") || r.has_label("edit:crlf-adjacent")) && (r.has_label("with-close") || r.has_label("opens>=2"));
        if ctx.want_rendered || r.failure.is_some() {
            r.rendered = Some(serde_json::to_value(&h).unwrap());
        }
        r
    }
    fn replay(&self, case: &Value) -> Option<Result<(), Failure>> {
        let h: History = serde_json::from_value(case.clone()).ok()?;
        let mut r = CaseReport::default();
        check_history(&h, &mut r);
        Some(match r.failure {
            Some(f) => Err(f),
            None => Ok(()),
        })
    }
}
