//! C07 — type inference terminates; its verdict is independent of order and names.

use crate::engine::{catch, CaseCtx, CaseReport, Failure, Property, Tier};
use crate::gen::ast::*;
use crate::gen::typed::{Gen, GenCfg};
use crate::oal::*;
use crate::tape::Tape;
use oal_compiler::verif::{reduce, FuncTag, InferenceSet, Seq, Tag as OTag};
use serde_json::{json, Value};
use std::collections::BTreeMap;

pub struct C07;

fn n_cases(tier: Tier) -> u64 {
    match tier {
        Tier::Quick => 600_000,
        Tier::Thorough => 20_000_000,
    }
}

// ---------------------------------------------------------------------------------------
// (a) R-unify: a textbook unifier over {constants, Property/1, Func/n+1, variables}

#[derive(Clone, PartialEq, Eq, Debug)]
pub enum T {
    C(u8),
    P(Box<T>),
    F(Vec<T>, Box<T>),
    V(usize),
}

const N_CONST: u8 = 11;

fn show(t: &T) -> String {
    const NAMES: [&str; 11] = ["text", "number", "status", "prim", "rel", "obj", "content", "xfer", "array", "uri", "any"];
    match t {
        T::C(c) => NAMES[*c as usize].to_owned(),
        T::P(i) => format!("prop[{}]", show(i)),
        T::F(a, r) => format!("fn[{} -> {}]", a.iter().map(show).collect::<Vec<_>>().join(","), show(r)),
        T::V(v) => format!("v{v}"),
    }
}

fn apply(s: &BTreeMap<usize, T>, t: &T) -> T {
    match t {
        T::V(v) => match s.get(v) {
            Some(b) => apply(s, b),
            None => t.clone(),
        },
        T::P(i) => T::P(Box::new(apply(s, i))),
        T::F(a, r) => T::F(a.iter().map(|x| apply(s, x)).collect(), Box::new(apply(s, r))),
        T::C(_) => t.clone(),
    }
}

fn occurs(v: usize, t: &T) -> bool {
    match t {
        T::V(w) => *w == v,
        T::P(i) => occurs(v, i),
        T::F(a, r) => a.iter().any(|x| occurs(v, x)) || occurs(v, r),
        T::C(_) => false,
    }
}

/// Robinson unification; `None` when the system has no (finite) solution.
pub fn ref_unify(eqs: &[(T, T)]) -> Option<BTreeMap<usize, T>> {
    let mut s: BTreeMap<usize, T> = BTreeMap::new();
    let mut work: Vec<(T, T)> = eqs.iter().rev().cloned().collect();
    while let Some((l, r)) = work.pop() {
        let l = apply(&s, &l);
        let r = apply(&s, &r);
        if l == r {
            continue;
        }
        match (l, r) {
            (T::V(v), t) | (t, T::V(v)) => {
                if occurs(v, &t) {
                    return None;
                }
                s.insert(v, t);
            }
            (T::P(a), T::P(b)) => work.push((*a, *b)),
            (T::F(a1, r1), T::F(a2, r2)) => {
                if a1.len() != a2.len() {
                    return None;
                }
                work.push((*r1, *r2));
                for (x, y) in a1.into_iter().zip(a2) {
                    work.push((x, y));
                }
            }
            _ => return None,
        }
    }
    Some(s)
}

fn to_otag(t: &T, vars: &[OTag]) -> OTag {
    match t {
        T::C(c) => match c {
            0 => OTag::Text,
            1 => OTag::Number,
            2 => OTag::Status,
            3 => OTag::Primitive,
            4 => OTag::Relation,
            5 => OTag::Object,
            6 => OTag::Content,
            7 => OTag::Transfer,
            8 => OTag::Array,
            9 => OTag::Uri,
            _ => OTag::Any,
        },
        T::P(i) => OTag::Property(Box::new(to_otag(i, vars))),
        T::F(a, r) => OTag::Func(FuncTag { bindings: a.iter().map(|x| to_otag(x, vars)).collect(), range: Box::new(to_otag(r, vars)) }),
        T::V(v) => vars[*v].clone(),
    }
}

fn from_otag(t: &OTag, vars: &[OTag]) -> T {
    match t {
        OTag::Text => T::C(0),
        OTag::Number => T::C(1),
        OTag::Status => T::C(2),
        OTag::Primitive => T::C(3),
        OTag::Relation => T::C(4),
        OTag::Object => T::C(5),
        OTag::Content => T::C(6),
        OTag::Transfer => T::C(7),
        OTag::Array => T::C(8),
        OTag::Uri => T::C(9),
        OTag::Any => T::C(10),
        OTag::Property(i) => T::P(Box::new(from_otag(i, vars))),
        OTag::Func(f) => T::F(f.bindings.iter().map(|x| from_otag(x, vars)).collect(), Box::new(from_otag(&f.range, vars))),
        v @ OTag::Var(_) => T::V(vars.iter().position(|x| x == v).expect("known variable")),
    }
}

/// Equality up to a bijective renaming of variables, built jointly over several pairs.
fn alpha_eq(a: &T, b: &T, fwd: &mut BTreeMap<usize, usize>, bwd: &mut BTreeMap<usize, usize>) -> bool {
    match (a, b) {
        (T::C(x), T::C(y)) => x == y,
        (T::P(x), T::P(y)) => alpha_eq(x, y, fwd, bwd),
        (T::F(a1, r1), T::F(a2, r2)) => a1.len() == a2.len() && a1.iter().zip(a2).all(|(x, y)| alpha_eq(x, y, fwd, bwd)) && alpha_eq(r1, r2, fwd, bwd),
        (T::V(x), T::V(y)) => {
            let f = *fwd.entry(*x).or_insert(*y);
            let g = *bwd.entry(*y).or_insert(*x);
            f == *y && g == *x
        }
        _ => false,
    }
}

const N_VARS: usize = 6;

fn gen_term(t: &mut Tape, depth: usize) -> T {
    let k = if depth == 0 { t.choose(2) } else { t.choose(5) };
    match k {
        0 => T::V(t.choose(N_VARS)),
        1 => T::C(t.choose(N_CONST as usize) as u8),
        2 => T::P(Box::new(gen_term(t, depth - 1))),
        _ => {
            let n = t.choose(4);
            T::F((0..n).map(|_| gen_term(t, depth - 1)).collect(), Box::new(gen_term(t, depth - 1)))
        }
    }
}

fn gen_system(t: &mut Tape) -> (&'static str, Vec<(T, T)>) {
    let n = t.range(1, 8);
    match t.weighted(&[4, 2, 4]) {
        0 => {
            // Solvable by construction: instantiate both sides of each equation with one substitution.
            let mut sigma: BTreeMap<usize, T> = BTreeMap::new();
            for v in 0..N_VARS {
                if t.chance(1, 2) {
                    // Ground-ish terms over higher variables only, so sigma is idempotent.
                    let mut g = gen_term(t, 2);
                    fn lift(x: &mut T, min: usize) {
                        match x {
                            T::V(w) => {
                                if *w <= min {
                                    *x = T::C((*w % 11) as u8)
                                }
                            }
                            T::P(i) => lift(i, min),
                            T::F(a, r) => {
                                a.iter_mut().for_each(|y| lift(y, min));
                                lift(r, min)
                            }
                            T::C(_) => {}
                        }
                    }
                    lift(&mut g, v);
                    sigma.insert(v, g);
                }
            }
            let eqs = (0..n)
                .map(|_| {
                    let shape = gen_term(t, 3);
                    // Left: the shape; right: the shape with some variables replaced by their image.
                    fn partial(x: &T, s: &BTreeMap<usize, T>, t: &mut Tape) -> T {
                        match x {
                            T::V(v) => match s.get(v) {
                                Some(b) if t.chance(1, 2) => b.clone(),
                                _ => x.clone(),
                            },
                            T::P(i) => T::P(Box::new(partial(i, s, t))),
                            T::F(a, r) => T::F(a.iter().map(|y| partial(y, s, t)).collect(), Box::new(partial(r, s, t))),
                            T::C(_) => x.clone(),
                        }
                    }
                    (partial(&shape, &sigma, t), partial(&shape, &sigma, t))
                })
                .collect();
            ("solvable-by-construction", eqs)
        }
        1 => {
            // A deliberate occurs violation under Property and/or Func, at depth 1..3, somewhere in the system.
            let mut eqs: Vec<(T, T)> = (0..n - 1).map(|_| (gen_term(t, 2), gen_term(t, 2))).collect();
            let v = t.choose(N_VARS);
            let mut inner = T::V(v);
            let d = t.range(1, 3);
            for _ in 0..d {
                inner = match t.choose(3) {
                    0 => T::P(Box::new(inner)),
                    1 => T::F(vec![inner], Box::new(T::C(3))),
                    _ => {
                        let other = gen_term(t, 1);
                        if t.chance(1, 2) {
                            T::F(vec![other, inner], Box::new(T::C(5)))
                        } else {
                            T::F(vec![other], Box::new(inner))
                        }
                    }
                };
            }
            // Sometimes through an intermediate variable: v = w, w = f(v).
            let pos = t.choose(eqs.len() + 1);
            if t.chance(1, 3) {
                let w = (v + 1) % N_VARS;
                eqs.insert(pos, (T::V(w), inner));
                let pos2 = t.choose(eqs.len() + 1);
                eqs.insert(pos2, (T::V(v), T::V(w)));
            } else if t.chance(1, 2) {
                eqs.insert(pos, (T::V(v), inner));
            } else {
                eqs.insert(pos, (inner, T::V(v)));
            }
            ("occurs-violation", eqs)
        }
        _ => ("free", (0..n).map(|_| (gen_term(t, 3), gen_term(t, 3))).collect()),
    }
}

fn run_impl(eqs: &[(T, T)]) -> Result<Vec<T>, String> {
    let mut seq = Seq::new(locator("main.oal"));
    let vars: Vec<OTag> = (0..N_VARS).map(|_| OTag::Var(seq.next())).collect();
    let mut set = InferenceSet::new();
    for (l, r) in eqs {
        set.push(to_otag(l, &vars), to_otag(r, &vars), None);
    }
    match set.unify() {
        Ok(sets) => Ok(vars.iter().map(|v| from_otag(&reduce(&sets, v), &vars)).collect()),
        Err(e) => Err(e.to_string()),
    }
}

fn check_system(eqs: &[(T, T)], t: &mut Tape) -> (u64, Option<Failure>) {
    let show_sys = |eqs: &[(T, T)]| eqs.iter().map(|(l, r)| format!("{} = {}", show(l), show(r))).collect::<Vec<_>>().join("; ");
    let mut n = 0u64;
    let expected = ref_unify(eqs);
    // The original order, then permutations and swapped sides.
    let mut variants: Vec<Vec<(T, T)>> = vec![eqs.to_vec()];
    for _ in 0..4 {
        let mut v = eqs.to_vec();
        for i in (1..v.len()).rev() {
            let j = t.choose(i + 1);
            v.swap(i, j);
        }
        for e in v.iter_mut() {
            if t.chance(1, 2) {
                std::mem::swap(&mut e.0, &mut e.1);
            }
        }
        variants.push(v);
    }
    let mut first: Option<Result<Vec<T>, String>> = None;
    for v in &variants {
        n += 1;
        let got = run_impl(v);
        match (&expected, &got) {
            (Some(_), Err(e)) => {
                return (n, Some(Failure::new("c07:unifier-rejects-solvable", format!("system [{}] has a unifier but the implementation says: {e}", show_sys(v)))));
            }
            (None, Ok(_)) => {
                return (n, Some(Failure::new("c07:unifier-accepts-unsolvable", format!("system [{}] has no finite unifier but the implementation accepts it", show_sys(v)))));
            }
            (Some(mgu), Ok(sol)) => {
                let mut fwd = BTreeMap::new();
                let mut bwd = BTreeMap::new();
                for (i, s) in sol.iter().enumerate() {
                    let want = apply(mgu, &T::V(i));
                    if !alpha_eq(s, &want, &mut fwd, &mut bwd) {
                        return (
                            n,
                            Some(Failure::new(
                                "c07:unifier-not-most-general",
                                format!("system [{}]: variable v{i} reduces to {} but the most general unifier gives {} (up to renaming)", show_sys(v), show(s), show(&want)),
                            )),
                        );
                    }
                }
            }
            (None, Err(_)) => {}
        }
        if first.is_none() {
            first = Some(got);
        }
    }
    (n, None)
}

// ---------------------------------------------------------------------------------------
// (b) and (c): programs

/// Injects one unambiguous kind error; returns its description, or None if no site was found.
pub fn inject_kind_error(prog: &mut Program, t: &mut Tape) -> Option<&'static str> {
    #[derive(Clone, Copy)]
    enum Site {
        JoinOperand,
        ArrayOfContent,
        PropertyOfContent,
        MediaNumber,
        HeadersPrim,
        RelationUriObject,
        UnaryOnSchema,
        ConcatArity,
    }
    let kinds = [
        Site::JoinOperand,
        Site::ArrayOfContent,
        Site::PropertyOfContent,
        Site::MediaNumber,
        Site::HeadersPrim,
        Site::RelationUriObject,
        Site::UnaryOnSchema,
        Site::ConcatArity,
    ];
    let start = t.choose(kinds.len());
    for off in 0..kinds.len() {
        let kind = kinds[(start + off) % kinds.len()];
        let matches = |e: &E| match (kind, e) {
            (Site::JoinOperand, E::Op(OpKind::Join, _)) => true,
            (Site::ArrayOfContent, E::Array(_)) => true,
            (Site::PropertyOfContent, E::Property(_, _, _)) => true,
            (Site::MediaNumber, E::Content(m, _)) => m.iter().any(|(k, _)| *k == MetaKind::Media),
            (Site::HeadersPrim, E::Content(m, _)) => m.iter().any(|(k, _)| *k == MetaKind::Headers),
            (Site::RelationUriObject, E::Relation(_, _)) => true,
            (Site::UnaryOnSchema, E::Array(_)) => true,
            (Site::ConcatArity, E::App(v, _)) => v.binder.is_none() && v.free_name.as_deref() == Some("concat"),
            _ => false,
        };
        let mut count = 0usize;
        prog.visit_exprs(&mut |e| {
            if matches(e) {
                count += 1;
            }
        });
        if count == 0 {
            continue;
        }
        let target = t.choose(count);
        let mut seen = 0usize;
        let mut done = false;
        prog.visit_exprs_mut(&mut |e| {
            if done {
                return false;
            }
            if matches(e) {
                if seen == target {
                    match (kind, &mut *e) {
                        (Site::JoinOperand, E::Op(_, ops)) => ops[0] = E::Prim(Prim::Num),
                        (Site::ArrayOfContent, E::Array(inner)) => **inner = E::Content(vec![], None),
                        (Site::PropertyOfContent, E::Property(_, _, rhs)) => **rhs = E::Content(vec![], None),
                        (Site::MediaNumber, E::Content(m, _)) => {
                            for (k, v) in m.iter_mut() {
                                if *k == MetaKind::Media {
                                    *v = E::Num(200);
                                }
                            }
                        }
                        (Site::HeadersPrim, E::Content(m, _)) => {
                            for (k, v) in m.iter_mut() {
                                if *k == MetaKind::Headers {
                                    *v = E::Prim(Prim::Str);
                                }
                            }
                        }
                        (Site::RelationUriObject, E::Relation(u, _)) => **u = E::Object(vec![]),
                        (Site::UnaryOnSchema, E::Array(inner)) => **inner = E::Unary(Box::new(E::Prim(Prim::Num)), true),
                        (Site::ConcatArity, E::App(_, args)) => {
                            args.pop();
                        }
                        _ => unreachable!(),
                    }
                    done = true;
                    return false;
                }
                seen += 1;
            }
            true
        });
        if done {
            return Some(match kind {
                Site::JoinOperand => "join-operand-primitive",
                Site::ArrayOfContent => "array-of-content",
                Site::PropertyOfContent => "property-of-content",
                Site::MediaNumber => "media-number",
                Site::HeadersPrim => "headers-primitive",
                Site::RelationUriObject => "relation-uri-object",
                Site::UnaryOnSchema => "optionality-of-schema",
                Site::ConcatArity => "concat-arity",
            });
        }
    }
    None
}

/// Other rejections, for the metamorphic part: unbound use, duplicate declaration.
pub fn inject_scope_error(prog: &mut Program, t: &mut Tape) -> Option<&'static str> {
    if t.chance(1, 2) {
        let mut count = 0;
        prog.visit_exprs(&mut |e| {
            if matches!(e, E::Var(v) if v.binder.is_some()) {
                count += 1
            }
        });
        if count == 0 {
            return None;
        }
        let target = t.choose(count);
        let mut seen = 0;
        prog.visit_exprs_mut(&mut |e| {
            if let E::Var(v) = e {
                if v.binder.is_some() {
                    if seen == target {
                        *v = VarRef { binder: None, via: None, free_name: Some("nowhere".to_owned()) };
                    }
                    seen += 1;
                }
            }
            true
        });
        Some("unbound-use")
    } else {
        // Give two declarations of the main module the same name.
        let ids: Vec<Bid> = prog.modules[0].stmts.iter().filter_map(|s| if let Stmt::Let(d) = s { Some(d.id) } else { None }).collect();
        if ids.len() < 2 {
            return None;
        }
        let a = ids[t.choose(ids.len())];
        let b = *ids.iter().find(|x| **x != a)?;
        if prog.binders[a].name.starts_with('@') != prog.binders[b].name.starts_with('@') {
            return None;
        }
        prog.binders[b].name = prog.binders[a].name.clone();
        Some("duplicate-declaration")
    }
}

fn permute_and_rename(prog: &Program, t: &mut Tape) -> (Program, bool) {
    let mut p = prog.clone();
    let mut changed = false;
    for m in p.modules.iter_mut() {
        let n = m.stmts.len();
        for i in (1..n).rev() {
            let j = t.choose(i + 1);
            if i != j {
                // Resources may not overtake each other (the same path twice is order dependent).
                if matches!(m.stmts[i], Stmt::Res(_)) && matches!(m.stmts[j], Stmt::Res(_)) {
                    continue;
                }
                m.stmts.swap(i, j);
                changed = true;
            }
        }
        // Restore the relative order of resources.
        let order: Vec<Stmt> = m.stmts.iter().filter(|s| matches!(s, Stmt::Res(_))).cloned().collect();
        let mut sorted: Vec<Stmt> = prog.modules.iter().find(|om| om.file == m.file).unwrap().stmts.iter().filter(|s| matches!(s, Stmt::Res(_))).cloned().collect();
        if order != sorted {
            let mut it = sorted.drain(..);
            for s in m.stmts.iter_mut() {
                if matches!(s, Stmt::Res(_)) {
                    *s = it.next().unwrap();
                }
            }
        }
    }
    // Consistent renaming of binders, keeping duplicates duplicated and the @ class.
    if t.chance(2, 3) {
        let mut map: BTreeMap<String, String> = BTreeMap::new();
        for (i, b) in p.binders.iter_mut().enumerate() {
            if t.chance(1, 2) {
                let at = b.name.starts_with('@');
                let key = b.name.clone();
                let fresh = map.entry(key).or_insert_with(|| if at { format!("@zz{i}") } else { format!("zz{i}") }).clone();
                // Only declarations with the same old name share the new one; locals get their own.
                if matches!(b.kind, BinderKind::Decl { .. }) {
                    b.name = fresh;
                } else {
                    b.name = format!("zl{i}");
                }
                changed = true;
            }
        }
        // A renamed declaration name that is reused by an unrenamed duplicate would split the pair:
        // rename all binders that shared an old name consistently.
        for (i, b) in p.binders.iter_mut().enumerate() {
            let old = &prog.binders[i].name;
            if matches!(b.kind, BinderKind::Decl { .. }) {
                if let Some(n) = map.get(old) {
                    b.name = n.clone();
                }
            }
        }
    }
    (p, changed)
}

fn compile_verdict(prog: &Program) -> Result<String, crate::engine::PanicInfo> {
    let s = to_sources(&render_plain(prog));
    catch(|| match load(&s) {
        Ok(_) => "accepted".to_owned(),
        Err(e) => format!("rejected:{}", e.kind_name()),
    })
}

/// One generated system through the differential oracle (used by the libFuzzer target).
pub fn fuzz_system(tape: &mut Tape, r: &mut CaseReport) -> String {
    let (_, eqs) = gen_system(tape);
    let (_, f) = check_system(&eqs, tape);
    if let Some(f) = f {
        r.fail(f);
    }
    eqs.iter().map(|(l, r)| format!("{} = {}", show(l), show(r))).collect::<Vec<_>>().join("; ")
}

fn replay_text(text: &str) -> Result<(), Failure> {
    match catch(|| load(&Sources::single(text))) {
        Ok(_) => Ok(()),
        Err(p) => Err(Failure::new(p.signature(), format!("compile panicked at {}: {}", p.location, p.message))),
    }
}

impl Property for C07 {
    fn id(&self) -> &'static str {
        "C07"
    }
    fn tape_len(&self) -> usize {
        1500
    }
    fn cases(&self, tier: Tier) -> u64 {
        n_cases(tier)
    }
    fn rule(&self) -> String {
        "Cases: (a) 70%: systems of 1-8 tag equations over 6 variables, terms of depth <= 3 over the eleven constants, property[.] and \
         functions of arity 0-3; 40% solvable by construction (both sides instantiated from one substitution), 20% with a deliberate occurs \
         violation at depth 1-3 under property and/or function constructors (sometimes through an intermediate variable), the rest free; each \
         system is also run under 4 permutations with randomly swapped sides. Oracle: InferenceSet::unify is Ok iff a textbook Robinson \
         unifier finds a unifier, and reduce() of every variable equals the most general unifier up to a bijective renaming of variables \
         (built jointly over all variables); termination by the CPU watchdog, stack overflow by the driver (hook H1). (b) 15%: single-module \
         programs (accepted, or rejected by an injected kind / scope / duplicate error), recompiled after permuting statements and renaming \
         binders consistently: same verdict and same error kind. (c) 15%: strict-fragment programs must be accepted; the same program with one \
         injected unambiguous kind error (8 sorts) must be rejected with InvalidType. evaluations counts unifier runs / compilations. \
         Non-trivial: (a) >= 2 equations sharing a variable; (b) >= 3 declarations and a changed program; (c) all. Distinct by hash of the case."
            .to_owned()
    }
    fn replay(&self, case: &Value) -> Option<Result<(), Failure>> {
        // Saved texts (e.g. the reproduction of a fixed finding): inference must terminate with a verdict.
        let text = case.get("text")?.as_str()?;
        Some(replay_text(text))
    }
    fn assumptions(&self) -> Vec<String> {
        vec![
            "the unifier is driven through the hook re-exports (Tag, FuncTag, Seq, InferenceSet, reduce); equations carry no spans".into(),
            "the error kind of a rejected module does not depend on traversal order because the phases (duplicates, resolution, unification, cycles, kind checks) run in a fixed order; multi-module sets are not permuted across modules".into(),
        ]
    }
    fn run_case(&self, tape: &mut Tape, ctx: &CaseCtx) -> CaseReport {
        let mut r = CaseReport::default();
        use std::hash::{Hash, Hasher};
        let mut h = std::collections::hash_map::DefaultHasher::new();
        match tape.weighted(&[70, 15, 15]) {
            0 => {
                let (class, eqs) = gen_system(tape);
                format!("{eqs:?}").hash(&mut h);
                let shared = {
                    let mut seen = std::collections::BTreeMap::new();
                    for (i, (l, r_)) in eqs.iter().enumerate() {
                        for v in 0..N_VARS {
                            if occurs(v, l) || occurs(v, r_) {
                                seen.entry(v).or_insert_with(Vec::new).push(i);
                            }
                        }
                    }
                    seen.values().any(|is| is.len() >= 2)
                };
                let (n, f) = check_system(&eqs, tape);
                r.evaluations = n;
                r.nontrivial = eqs.len() >= 2 && shared;
                r.label(format!("a:{class}"));
                r.label(if ref_unify(&eqs).is_some() { "a:solvable" } else { "a:unsolvable" });
                if let Some(f) = f {
                    r.fail(f);
                }
                if ctx.want_rendered || r.failure.is_some() {
                    r.rendered = Some(json!({"part": "a", "class": class, "equations": eqs.iter().map(|(l, r)| format!("{} = {}", show(l), show(r))).collect::<Vec<_>>()}));
                }
            }
            1 => {
                let cfg = GenCfg { max_modules: 1, invalid_cycles: true, ..GenCfg::full() };
                let (mut prog, _) = Gen::new(tape, cfg).program();
                let injected = match tape.choose(3) {
                    0 => None,
                    1 => inject_kind_error(&mut prog, tape),
                    _ => inject_scope_error(&mut prog, tape),
                };
                let base = compile_verdict(&prog);
                let (variant, changed) = permute_and_rename(&prog, tape);
                let other = compile_verdict(&variant);
                let src = to_sources(&render_plain(&prog));
                src.hash(&mut h);
                r.evaluations = 2;
                let n_decls = prog.decls().count();
                r.nontrivial = n_decls >= 3 && changed;
                r.label("b:metamorphic");
                r.label(format!("b:injected:{}", injected.unwrap_or("none")));
                match (&base, &other) {
                    (Ok(a), Ok(b)) => {
                        r.label(format!("b:{}", a));
                        if a != b {
                            r.fail(Failure::new(
                                "c07:verdict-depends-on-order-or-names",
                                format!("verdict {a} before, {b} after permuting statements / renaming binders"),
                            ));
                        }
                    }
                    (Err(p), _) | (_, Err(p)) => r.fail(Failure::new(p.signature(), format!("compile panicked at {}: {}", p.location, p.message))),
                }
                if ctx.want_rendered || r.failure.is_some() {
                    r.rendered = Some(json!({"part": "b", "injected": injected, "sources": src.to_json(), "variant": to_sources(&render_plain(&variant)).to_json()}));
                }
            }
            _ => {
                let (prog, _) = Gen::new(tape, GenCfg::strict()).program();
                let base = compile_verdict(&prog);
                let mut bad = prog.clone();
                let injected = inject_kind_error(&mut bad, tape);
                let src = to_sources(&render_plain(&prog));
                src.hash(&mut h);
                r.evaluations = 1;
                r.nontrivial = true;
                r.label("c:by-construction");
                match &base {
                    Ok(v) if v == "accepted" => {}
                    Ok(v) => r.fail(Failure::new("c07:well-kinded-rejected", format!("a program that is well kinded by construction is {v}"))),
                    Err(p) => r.fail(Failure::new(p.signature(), format!("compile panicked at {}: {}", p.location, p.message))),
                }
                let mut bad_src = None;
                if let Some(what) = injected {
                    r.evaluations += 1;
                    r.label(format!("c:injected:{what}"));
                    let v = compile_verdict(&bad);
                    bad_src = Some(to_sources(&render_plain(&bad)));
                    match v {
                        Ok(v) if v == "rejected:InvalidType" => {}
                        Ok(v) => r.fail(Failure::new(
                            format!("c07:ill-kinded-{v}:{what}"),
                            format!("a program with an injected kind error ({what}) is {v}, expected rejected:InvalidType"),
                        )),
                        Err(p) => r.fail(Failure::new(p.signature(), format!("compile panicked at {}: {}", p.location, p.message))),
                    }
                }
                if ctx.want_rendered || r.failure.is_some() {
                    r.rendered = Some(json!({"part": "c", "injected": injected, "sources": src.to_json(), "ill_kinded": bad_src.map(|s| s.to_json())}));
                }
            }
        }
        r.hash = h.finish();
        r
    }
}
