//! C02 — the emitted document means what the program says.

use crate::docq::equivalent;
use crate::engine::{catch, CaseCtx, CaseReport, Failure, Property, Tier};
use crate::gen::ast::*;
use crate::gen::typed::{Gen, GenCfg};
use crate::oal::*;
use crate::refsem::{expected, Expected};
use crate::tape::Tape;
use serde_json::{json, Value};

pub struct C02;

fn n_cases(tier: Tier) -> u64 {
    match tier {
        Tier::Quick => 300_000,
        Tier::Thorough => 3_000_000,
    }
}

/// Compares what oal does with what the reference semantics expects. Returns the class of the case.
pub fn check_program(prog: &Program, sources: &Sources, r: &mut CaseReport) -> &'static str {
    let (exp, _facts) = expected(prog);
    let out = match catch(|| pipeline(sources, None)) {
        Ok(o) => o,
        Err(p) => {
            // Crashes are C01's business; here they only mean "no document to compare".
            r.label("pipeline-panic");
            let _ = p;
            return "pipeline-panic";
        }
    };
    match (&exp, &out) {
        (Expected::Excluded(why), _) => {
            r.label(format!("excluded:{why}"));
            "excluded"
        }
        (Expected::Document(want), Outcome::Document { yaml, .. }) => {
            let got = match yaml_to_json(yaml) {
                Ok(g) => g,
                Err(e) => {
                    r.fail(Failure::new("c02:yaml-unreadable", e));
                    return "document";
                }
            };
            if let Err(diff) = equivalent(&got, want) {
                let site = diff.split(':').next().unwrap_or("").to_owned();
                // The signature names the kind of place, not the concrete path.
                let kind: String = site.split('/').filter(|s| !s.is_empty()).map(|s| if s.chars().all(|c| c.is_ascii_digit()) { "#" } else { s }).last().unwrap_or("").to_owned();
                r.fail(Failure::new(format!("c02:document-differs:{kind}"), diff));
            }
            "document"
        }
        (Expected::Document(_), Outcome::Rejected(e)) => {
            r.fail(Failure::new(
                format!("c02:well-formed-program-rejected:{}", e.kind_name()),
                format!("a program of the well-typed fragment is rejected: {e:?}"),
            ));
            "rejected"
        }
        (Expected::Document(_), Outcome::EvalError(e)) => {
            r.fail(Failure::new(format!("c02:unexpected-eval-error:{}", kind_name(&e.kind)), format!("evaluation fails: {e}")));
            "eval-error"
        }
        (Expected::EvalError(k), Outcome::EvalError(e)) => {
            if kind_name(&e.kind) != *k {
                r.fail(Failure::new("c02:eval-error-kind", format!("expected an evaluation error of kind {k}, got {e}")));
            }
            "eval-error"
        }
        (Expected::EvalError(k), other) => {
            r.fail(Failure::new(format!("c02:missing-eval-error:{k}"), format!("expected an evaluation error of kind {k}, got {}", other.verdict())));
            "eval-error"
        }
        (Expected::Rejected(k), Outcome::Rejected(e)) => {
            if e.kind_name() != *k {
                r.fail(Failure::new("c02:rejection-kind", format!("expected rejection with {k}, got {e:?}")));
            }
            "rejected"
        }
        (Expected::Rejected(k), other) => {
            r.fail(Failure::new(format!("c02:missing-rejection:{k}"), format!("a cycle with nothing to cut at must be rejected with {k}; got {}", other.verdict())));
            "rejected"
        }
    }
}

pub fn labels_to_report(labels: &std::collections::BTreeSet<&'static str>, r: &mut CaseReport) {
    for l in labels {
        r.label(format!("has:{l}"));
    }
}

impl Property for C02 {
    fn id(&self) -> &'static str {
        "C02"
    }
    fn tape_len(&self) -> usize {
        1500
    }
    fn cases(&self, tier: Tier) -> u64 {
        n_cases(tier)
    }
    fn rule(&self) -> String {
        "Cases: programs of the strict fragment from the kind-directed generator (1-3 modules; all schema forms, properties with !/? marks and \
         postfix operators, objects, arrays, & | ~ ::, contents with status/media/headers, transfers with parameters and request bodies, URI \
         templates with variables and query parameters, concat, relations, declarations, functions of 1-3 parameters incl. nested \
         applications, rec, recursive declarations, @references, qualified and unqualified imports, line and inline annotations of every \
         supported key with well- and ill-typed values). Oracle: R-sem, an independent evaluator over the generator's AST (binder ids instead \
         of names, lexical environments, explicit mu for recursion) that emits the expected OpenAPI JSON; R-eq compares the re-parsed YAML \
         with it modulo key order, serialisation defaults and transparent (coinductively unfolded) hash-*/mu-* components. Programs that R-sem \
         recognises as outside the fragment (X1 same path twice, X2 one status with two header sets, X4 use-site annotations on a shared \
         reference, X5 duplicate names / methods, X9 ambiguous operationId) are counted as excluded:<class>. Non-trivial: >= 1 operation and \
         >= 2 of {parameter, request body, >= 2 responses, annotation, application, recursion, import, @reference}. Distinct by source hash."
            .to_owned()
    }
    fn assumptions(&self) -> Vec<String> {
        vec![
            "annotation placement is pinned to the observed flow rules (terminal -> sub-expression -> variable -> declaration -> application body -> rec body); the manual is not available offline".into(),
            "the strict fragment excludes the classes X1, X2, X4, X5, X9 (no faithful output exists or a known finding); the exclusions are counted".into(),
            "implicit component names are not compared, only the regular trees they unfold to".into(),
        ]
    }
    fn run_case(&self, tape: &mut Tape, ctx: &CaseCtx) -> CaseReport {
        let (shadow, stress) = match tape.choose(6) {
            0 => (true, false),
            1 => (true, true),
            _ => (false, false),
        };
        let cfg = GenCfg { shadowing: shadow, scope_stress: stress, at_name_clash: tape.chance(1, 8), ..GenCfg::strict() };
        let (prog, labels) = Gen::new(tape, cfg).program();
        let rendered = if tape.chance(1, 3) { render_trivia(&prog, tape) } else { render_plain(&prog) };
        let sources = to_sources(&rendered);
        let mut r = CaseReport::default();
        r.hash = sources.hash64();
        let class = check_program(&prog, &sources, &mut r);
        r.label(format!("class:{class}"));
        labels_to_report(&labels, &mut r);
        let feats = ["uri-variable", "uri-query", "xfer-params", "request-body", "ranges", "annotation", "decl-annotation", "application", "rec", "declaration-cycle", "multi-module", "at-reference"];
        let n = feats.iter().filter(|f| labels.contains(*f)).count();
        r.nontrivial = class == "document" && n >= 2;
        if ctx.want_rendered || r.failure.is_some() {
            let exp = match expected(&prog).0 {
                Expected::Document(d) => d,
                other => json!(format!("{other:?}")),
            };
            r.rendered = Some(json!({"sources": sources.to_json(), "expected": exp}));
        }
        r
    }
    fn replay(&self, case: &Value) -> Option<Result<(), Failure>> {
        // A saved case carries its sources and the document the reference semantics expected:
        // the plain regression check compares oal's output with that document (no generator involved).
        let sources: Sources = serde_json::from_value(case.get("sources")?.clone()).ok()?;
        let want = case.get("expected")?;
        if !want.is_object() {
            return None;
        }
        Some(match catch(|| pipeline(&sources, None)) {
            Ok(Outcome::Document { yaml, .. }) => match yaml_to_json(&yaml) {
                Ok(got) => equivalent(&got, want).map_err(|d| Failure::new("c02:document-differs", d)),
                Err(e) => Err(Failure::new("c02:yaml-unreadable", e)),
            },
            Ok(other) => Err(Failure::new("c02:no-document", format!("expected a document, got {}", other.verdict()))),
            Err(p) => Err(Failure::new(p.signature(), p.message)),
        })
    }
}
