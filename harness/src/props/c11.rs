//! C11 — the syntax tree is lossless and every reported span is exact.

use crate::engine::{catch, CaseCtx, CaseReport, Failure, Property, Tier};
use crate::gen::ast::{render_plain, render_trivia, to_sources};
use crate::gen::text::{corpus, gen_text, join_tokens, mutate_tokens, split_tokens};
use crate::gen::typed::{Gen, GenCfg};
use crate::oal::*;
use crate::tape::Tape;
use oal_compiler::definition::Definition;
use oal_compiler::tree::Core;
use oal_model::grammar::{AbstractSyntaxNode, NodeRef, SyntaxTrunk};
use oal_model::lexicon::Interner;
use oal_syntax::lexer::{tokenize, TokenKind as TK, TokenValue};
use oal_syntax::parser::{Gram, Variable};
use serde_json::{json, Value};

pub struct C11;

fn n_cases(tier: Tier) -> u64 {
    match tier {
        Tier::Quick => 300_000,
        Tier::Thorough => 8_000_000,
    }
}

/// One lexed token as seen through the public API: (kind, start, end).
type Lexed = (TK, usize, usize);

/// T1 and T2 on one text. Returns the token list (kind, span).
fn check_lexer(text: &str) -> Result<Vec<Lexed>, Failure> {
    let loc = locator("main.oal");
    let (list, errors) = tokenize(loc.clone(), text);
    let list = list.ok_or_else(|| Failure::new("c11:no-token-list", "tokenize returned no token list"))?;
    let mut toks: Vec<Lexed> = Vec::new();
    let mut pieces: Vec<(usize, usize, bool)> = Vec::new();
    let mut c = list.head();
    while c.is_valid() {
        let (tok, span) = list.token_span(c);
        use oal_model::lexicon::Lexeme;
        let (a, b) = (span.start(), span.end());
        toks.push((tok.kind(), a, b));
        pieces.push((a, b, true));
        // T2: the token's value is the slice (minus delimiters / prefix).
        if b > text.len() || !text.is_char_boundary(a) || !text.is_char_boundary(b) || a >= b {
            return Err(Failure::new("c11:token-span", format!("token {:?} has span {a}..{b} in a text of {} bytes", tok.kind(), text.len())));
        }
        let slice = &text[a..b];
        let expect: Option<String> = match tok.kind() {
            TK::IdentifierValue | TK::IdentifierReference | TK::Space | TK::CommentLine | TK::CommentBlock => Some(slice.to_owned()),
            TK::LiteralString | TK::AnnotationInline => Some(slice[1..slice.len() - 1].to_owned()),
            TK::Property | TK::PathElementSegment | TK::AnnotationLine => Some(slice[1..].to_owned()),
            _ => None,
        };
        match (tok.value(), expect) {
            (TokenValue::Symbol(sym), Some(e)) => {
                let got = list.resolve(*sym);
                if got != e {
                    return Err(Failure::new("c11:token-text", format!("{:?} at {a}..{b}: value {got:?} but the source slice says {e:?}", tok.kind())));
                }
            }
            (TokenValue::Number(n), None) if tok.kind() == TK::LiteralNumber => {
                if slice.parse::<u64>().ok() != Some(*n) {
                    return Err(Failure::new("c11:token-text", format!("number token {n} at {a}..{b} but the source slice is {slice:?}")));
                }
            }
            (TokenValue::HttpStatus(_), None) if tok.kind() == TK::LiteralHttpStatus => {}
            (TokenValue::None, None) => {}
            (v, e) => {
                return Err(Failure::new("c11:token-value-shape", format!("{:?} at {a}..{b}: value {v:?}, expected shape {e:?}", tok.kind())));
            }
        }
        // T2: lexing the slice alone yields exactly that token.
        let (alone, alone_errs) = tokenize(loc.clone(), slice);
        let alone = alone.unwrap();
        let ok = alone_errs.is_empty() && alone.len() == 1 && {
            let (t2, s2) = alone.token_span(alone.head());
            t2.kind() == tok.kind() && s2.start() == 0 && s2.end() == slice.len()
        };
        if !ok {
            return Err(Failure::new("c11:token-slice-relex", format!("{:?} at {a}..{b}: its slice {slice:?} does not lex to that single token", tok.kind())));
        }
        c = list.advance(c);
    }
    for e in &errors {
        let s = e.span();
        pieces.push((s.start(), s.end(), false));
    }
    // T1: tiling.
    pieces.sort();
    let mut pos = 0usize;
    for (a, b, is_tok) in &pieces {
        if *a != pos {
            return Err(Failure::new(
                "c11:tiling",
                format!("{} {a}..{b} does not start where the previous piece ended ({pos}); text {:?}", if *is_tok { "token" } else { "lexical error" }, snippet(text, pos.min(*a))),
            ));
        }
        if b <= a || *b > text.len() || !text.is_char_boundary(*b) {
            return Err(Failure::new("c11:tiling", format!("piece {a}..{b} is empty, out of bounds or off a character boundary")));
        }
        pos = *b;
    }
    if pos != text.len() {
        return Err(Failure::new("c11:tiling", format!("tokens and lexical errors cover 0..{pos} of a text of {} bytes", text.len())));
    }
    Ok(toks)
}

fn snippet(text: &str, at: usize) -> String {
    let mut a = at.saturating_sub(10);
    while !text.is_char_boundary(a) {
        a -= 1;
    }
    let mut b = (at + 10).min(text.len());
    while !text.is_char_boundary(b) {
        b += 1;
    }
    text[a..b].to_owned()
}

fn is_trivia(k: TK) -> bool {
    matches!(k, TK::Space | TK::CommentLine | TK::CommentBlock)
}

/// Returns (first leaf start, last leaf end) of the subtree, checking T4 on the way.
fn walk<'a>(node: NodeRef<'a, Core, Gram>, leaves: &mut Vec<(TK, usize, usize)>) -> Result<Option<(usize, usize)>, Failure> {
    let hull = match node.syntax().trunk() {
        SyntaxTrunk::Leaf(t) => {
            let s = node.token().span();
            leaves.push((t.kind(), s.start(), s.end()));
            Some((s.start(), s.end()))
        }
        _ => {
            let mut hull: Option<(usize, usize)> = None;
            for c in node.children() {
                if let Some((a, b)) = walk(c, leaves)? {
                    hull = Some(match hull {
                        None => (a, b),
                        Some((ha, _)) => (ha, b),
                    });
                }
            }
            hull
        }
    };
    let span = node.span().map(|s| (s.start(), s.end()));
    if span != hull {
        return Err(Failure::new("c11:node-span", format!("node {:?}: span() = {span:?} but the hull of its leaves is {hull:?}", node.syntax().trunk())));
    }
    Ok(hull)
}

/// T3, T4 and the syntax half of T5 on one text.
fn check_parser(text: &str, toks: &[Lexed]) -> Result<(bool, usize), Failure> {
    let loc = locator("main.oal");
    let (tree, errs) = oal_syntax::parse::<_, Core>(loc, text);
    let src = Sources::single(text);
    let mut stop: Option<usize> = None;
    for e in &errs {
        let (span, is_grammar) = match e {
            oal_syntax::errors::Error::Grammar(g) => (g.span(), true),
            oal_syntax::errors::Error::Lexicon(l) => (l.span(), false),
            _ => continue,
        };
        span_ok(&src, &span).map_err(|w| Failure::new("c11:syntax-error-span", w))?;
        if is_grammar && e.to_string().contains("cannot parse remaining input") {
            stop = Some(span.start());
        }
    }
    let Some(tree) = tree else {
        return Ok((false, errs.len()));
    };
    let mut leaves = Vec::new();
    walk(tree.root(), &mut leaves)?;
    let expected: Vec<(TK, usize, usize)> = toks.iter().filter(|(k, a, _)| !is_trivia(*k) && stop.map_or(true, |s| *a < s)).copied().collect();
    if leaves != expected {
        let i = leaves.iter().zip(expected.iter()).position(|(x, y)| x != y).unwrap_or(leaves.len().min(expected.len()));
        return Err(Failure::new(
            "c11:leaves",
            format!(
                "the tree has {} leaves, the parsed prefix has {} non-trivia tokens; first difference at #{i}: tree {:?}, tokens {:?}",
                leaves.len(),
                expected.len(),
                leaves.get(i),
                expected.get(i)
            ),
        ));
    }
    Ok((errs.is_empty(), errs.len()))
}

/// T5 on a (possibly multi-module) source set: spans of compile errors, eval errors and definitions.
fn check_pipeline_spans(sources: &Sources) -> Result<&'static str, Failure> {
    match load(sources) {
        Err(e) => {
            for sp in e.spans() {
                span_ok(sources, &sp).map_err(|w| Failure::new(format!("c11:error-span:{}", e.kind_name()), w))?;
            }
            Ok("rejected")
        }
        Ok(mods) => {
            for tree in mods.modules() {
                for node in tree.root().descendants() {
                    if let Some(var) = Variable::cast(node) {
                        if let Some(Definition::External(ext)) = var.node().syntax().core_ref().definition() {
                            let target = ext.node(&mods);
                            match target.span() {
                                Some(sp) => span_ok(sources, &sp).map_err(|w| Failure::new("c11:definition-span", w))?,
                                None => return Err(Failure::new("c11:definition-span", "a definition target has no span")),
                            }
                        }
                    }
                }
            }
            match catch(|| back_end(&mods, None)) {
                Ok(BackEnd::EvalError(e)) => {
                    if let Some(sp) = e.span() {
                        span_ok(sources, sp).map_err(|w| Failure::new("c11:eval-error-span", w))?;
                    }
                    Ok("eval-error")
                }
                Ok(BackEnd::Document(_)) => Ok("document"),
                // Crashes of the back end are C01's business.
                Err(_) => Ok("back-end-panic"),
            }
        }
    }
}

pub fn check_sources(sources: &Sources, r: &mut CaseReport) {
    let mut n_tokens = 0usize;
    let mut multi_byte = false;
    let mut any_error = false;
    let mut trivia_kinds = std::collections::BTreeSet::new();
    for text in sources.files.values() {
        multi_byte |= !text.is_ascii();
        match check_lexer(text) {
            Err(f) => {
                r.fail(f);
                return;
            }
            Ok(toks) => {
                n_tokens += toks.len();
                for (k, _, _) in &toks {
                    if is_trivia(*k) {
                        trivia_kinds.insert(format!("{k:?}"));
                    }
                }
                match check_parser(text, &toks) {
                    Err(f) => {
                        r.fail(f);
                        return;
                    }
                    Ok((clean, _)) => any_error |= !clean,
                }
            }
        }
    }
    match check_pipeline_spans(sources) {
        Err(f) => r.fail(f),
        Ok(v) => {
            r.label(format!("pipeline:{v}"));
            any_error |= v != "document";
        }
    }
    r.evaluations = sources.files.len() as u64 + 1;
    r.nontrivial = n_tokens >= 5 && (multi_byte || any_error || trivia_kinds.len() >= 2);
    if multi_byte {
        r.label("multi-byte");
    }
    if any_error {
        r.label("with-errors");
    }
    if trivia_kinds.len() >= 2 {
        r.label("trivia>=2-kinds");
    }
}

/// The body of an annotation that is not valid YAML (or not a mapping), with multi-byte
/// characters before and after the place where a YAML parser gives up.
fn broken_annotation(t: &mut Tape) -> String {
    const WORDS: [&str; 12] = ["caf\u{e9}", "\u{540d}", "a", "na\u{ef}ve", "\u{20ac}\u{20ac}", "\u{1F600}", "title", "x\u{e9}\u{e9}\u{e9}", "description", "\u{fc}", "\u{540d}\u{524d}", "z"];
    let w = |t: &mut Tape| (*t.pick_ref(&WORDS)).to_owned();
    match t.choose(8) {
        0 => format!("{}: {}: {}", w(t), w(t), w(t)),
        1 => format!("description: {}: {}", w(t), w(t)),
        2 => format!("{}: [{}, {} }}", w(t), w(t), w(t)),
        3 => format!("{}: {{{}: {}", w(t), w(t), w(t)),
        4 => format!("{}: @{}", w(t), w(t)),
        5 => format!("{}: \"{} , {}: {}", w(t), w(t), w(t), w(t)),
        6 => format!("{} {}: {}, {}: - {}", w(t), w(t), w(t), w(t), w(t)),
        _ => format!("- {}: {}: %{}", w(t), w(t), w(t)),
    }
}

/// Replaces one annotation of the text (line or inline) by a broken one, or adds a broken line
/// annotation in front of a statement when there is none.
fn break_an_annotation(text: &str, t: &mut Tape) -> String {
    let mut toks = split_tokens(text);
    let sites: Vec<usize> = toks.iter().enumerate().filter(|(_, k)| (k.starts_with('#') || k.starts_with('`')) && k.len() > 1).map(|(i, _)| i).collect();
    let body = broken_annotation(t);
    if !sites.is_empty() && t.chance(3, 4) {
        let i = *t.pick_ref(&sites);
        toks[i] = if toks[i].starts_with('#') { format!("# {body}\n") } else { format!("`{body}`") };
    } else {
        let starts: Vec<usize> = toks.iter().enumerate().filter(|(_, k)| *k == "let" || *k == "res").map(|(i, _)| i).collect();
        if starts.is_empty() {
            return text.to_owned();
        }
        let i = *t.pick_ref(&starts);
        toks.insert(i, format!("# {body}\n"));
    }
    join_tokens(&toks)
}

fn generate(tape: &mut Tape) -> (&'static str, Sources) {
    match tape.weighted(&[36, 22, 18, 14, 10]) {
        4 => {
            // A valid program with one annotation that is not YAML: the error comes from evaluation.
            let (p, _) = Gen::new(tape, GenCfg::strict()).program();
            let mut s = to_sources(&render_plain(&p));
            let names: Vec<String> = s.files.keys().cloned().collect();
            let name = tape.pick_ref(&names).clone();
            let broken = break_an_annotation(&s.files[&name], tape);
            s.files.insert(name, broken);
            ("broken-annotation", s)
        }
        0 => {
            let (p, _) = Gen::new(tape, GenCfg::full()).program();
            ("typed-trivia", to_sources(&render_trivia(&p, tape)))
        }
        1 => {
            let (p, _) = Gen::new(tape, GenCfg::full()).program();
            let mut s = to_sources(&render_trivia(&p, tape));
            let names: Vec<String> = s.files.keys().cloned().collect();
            let name = tape.pick_ref(&names).clone();
            let toks = split_tokens(&s.files[&name]);
            s.files.insert(name, join_tokens(&mutate_tokens(tape, toks)));
            ("typed-mutant", s)
        }
        2 => ("text", Sources::single(&gen_text(tape))),
        _ => {
            let c = corpus();
            if c.is_empty() {
                return ("corpus-mutant", Sources::single(""));
            }
            let text = &tape.pick_ref(c).1;
            let toks = split_tokens(text);
            ("corpus-mutant", Sources::single(&join_tokens(&mutate_tokens(tape, toks))))
        }
    }
}

impl Property for C11 {
    fn id(&self) -> &'static str {
        "C11"
    }
    fn tape_len(&self) -> usize {
        2200
    }
    fn cases(&self, tier: Tier) -> u64 {
        n_cases(tier)
    }
    fn rule(&self) -> String {
        "Cases: generated programs (1-3 modules) laid out with tape-chosen trivia between tokens (blanks, tabs, LF, CRLF, line and block \
         comments with 2/3/4-byte characters), token-level mutants of those and of the repo corpus, and G-text strings (arbitrary Unicode, \
         unterminated quotes, long digit runs). Oracles on lexer::tokenize, oal_syntax::parse, module::load/compile and eval: T1 token and \
         lexical-error ranges tile [0,len) on character boundaries; T2 each token's interned value is its source slice (minus delimiters or \
         prefix; numbers by value) and its slice alone re-lexes to that one token; T3 the tree's leaves in depth-first order are exactly the \
         non-trivia tokens before the `cannot parse remaining input` position; T4 every node's span() is the hull of its leaves (None iff no \
         leaf); T5 every span of a syntax, compile or evaluation error and of every definition() target lies in a module of the program, on \
         character boundaries, within the text (or len..len+1 for end of input). Non-trivial: >= 5 tokens and (a multi-byte character, or a \
         lexical/syntax/compile/eval error, or trivia of >= 2 kinds). Distinct by hash of the source set."
            .to_owned()
    }
    fn assumptions(&self) -> Vec<String> {
        vec![
            "the token stream is observed through TokenList's public cursor API; tokens are compared with the tree through their spans".into(),
            "the parsed prefix ends at the span start of the `cannot parse remaining input` error when there is one".into(),
        ]
    }
    fn run_case(&self, tape: &mut Tape, ctx: &CaseCtx) -> CaseReport {
        let (gen_name, sources) = generate(tape);
        let mut r = CaseReport::default();
        r.hash = sources.hash64();
        check_sources(&sources, &mut r);
        r.label(format!("gen:{gen_name}"));
        if ctx.want_rendered || r.failure.is_some() {
            r.rendered = Some(json!({"generator": gen_name, "sources": sources.to_json()}));
        }
        r
    }
    fn minimize(&self, case: &Value, signature: &str) -> Option<Value> {
        let sources: Sources = serde_json::from_value(case.get("sources")?.clone()).ok()?;
        let small = crate::minimize::minimize_sources(
            &sources,
            |s| {
                let mut r = CaseReport::default();
                check_sources(s, &mut r);
                r.failure.map_or(false, |f| f.signature == signature)
            },
            400,
        );
        let mut out = case.clone();
        out["sources"] = small.to_json();
        Some(out)
    }
    fn replay(&self, case: &Value) -> Option<Result<(), Failure>> {
        let sources: Sources = serde_json::from_value(case.get("sources")?.clone()).ok()?;
        let mut r = CaseReport::default();
        check_sources(&sources, &mut r);
        Some(match r.failure {
            Some(f) => Err(f),
            None => Ok(()),
        })
    }
}
