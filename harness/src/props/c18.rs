//! C18 — rename is meaning-preserving and never crashes the server.

use crate::docq::equivalent;
use crate::engine::{catch, CaseCtx, CaseReport, Failure, Property, Tier};
use crate::gen::ast::*;
use crate::lspc::LspError;
use crate::lspcheck::*;
use crate::oal::*;
use crate::props::c17::{gen_program, table};
use crate::tape::Tape;
use serde_json::{json, Value};
use std::collections::{BTreeMap, BTreeSet};

pub struct C18;

fn n_cases(tier: Tier) -> u64 {
    match tier {
        Tier::Quick => 12_000,
        Tier::Thorough => 80_000,
    }
}

fn lsp_err(e: LspError, what: &str) -> Failure {
    match e {
        LspError::Died(st, err) => {
            let site = crate::props::c04::panic_site(&err);
            Failure::new(format!("c18:server-died:{st}:{site}"), format!("oal-lsp died during {what}: {err}"))
        }
        LspError::Timeout => Failure::new("lsp:timeout", format!("no answer to {what}")),
        LspError::Protocol(m) => Failure::new("lsp:protocol", m),
    }
}

fn doc_json(s: &Sources) -> Result<Value, String> {
    match catch(|| pipeline(s, None)) {
        Ok(Outcome::Document { yaml, .. }) => yaml_to_json(&yaml),
        Ok(o) => Err(o.verdict()),
        Err(p) => Err(p.signature()),
    }
}

/// Renames a named component in a document (key and every $ref to it).
fn rename_component(doc: &Value, old: &str, new: &str) -> Value {
    match doc {
        Value::Object(m) => {
            let mut out = serde_json::Map::new();
            for (k, v) in m {
                let nv = if k == "$ref" && v.as_str() == Some(&format!("#/components/schemas/{old}")) {
                    json!(format!("#/components/schemas/{new}"))
                } else if k == "schemas" {
                    // components.schemas: rename the key
                    match v {
                        Value::Object(sm) => Value::Object(sm.iter().map(|(sk, sv)| (if sk == old { new.to_owned() } else { sk.clone() }, rename_component(sv, old, new))).collect()),
                        other => rename_component(other, old, new),
                    }
                } else {
                    rename_component(v, old, new)
                };
                out.insert(k.clone(), nv);
            }
            Value::Object(out)
        }
        Value::Array(a) => Value::Array(a.iter().map(|x| rename_component(x, old, new)).collect()),
        other => other.clone(),
    }
}

pub fn check_program(prog: &Program, rendered: &[Rendered], tape: &mut Tape, dense: bool, r: &mut CaseReport) {
    let tb = table(prog, rendered);
    let ws = Workspace::from_rendered("c18", rendered);
    let mut lsp = match ws.start() {
        Ok(l) => l,
        Err(e) => {
            r.fail(lsp_err(e, "start"));
            return;
        }
    };
    // One case in three: a module is first opened with another layout of the same module, the
    // server evaluates it, and one didChange with two ranged changes (in document order) brings the
    // open document back to the text on disk before any rename is asked for.
    if tape.chance(1, 3) {
        let m = tape.choose(rendered.len());
        let other = if tape.chance(1, 2) { render_trivia(prog, tape) } else { render_plain(prog) };
        if other[m].text != rendered[m].text {
            let uri = ws.uri(&rendered[m].file);
            let main = ws.uri(&rendered[0].file);
            let edits = crate::lspcheck::two_edits(&other[m].text, &rendered[m].text, (tape.raw(), tape.raw()));
            let changes: Vec<(Option<((u32, u32), (u32, u32))>, String)> = edits.into_iter().map(|(rg, t)| (Some(rg), t)).collect();
            let res = lsp.did_open(&uri, &other[m].text).and_then(|_| lsp.barrier(&main)).and_then(|_| lsp.did_change(&uri, &changes));
            if let Err(e) = res {
                r.fail(lsp_err(e, "open / change back of another layout"));
                return;
            }
            r.label("visited-other-layout:changed-back-in-two-edits");
        }
    }
    let texts: BTreeMap<String, String> = rendered.iter().map(|x| (x.file.clone(), x.text.clone())).collect();
    let before_sources = to_sources(rendered);
    let Ok(before_doc) = doc_json(&before_sources) else {
        r.label("no-document");
        return;
    };
    let mut renames = 0u64;
    let mut done: BTreeSet<(String, (usize, usize), usize)> = BTreeSet::new();
    for rd in rendered {
        for (ti, (tok, sp)) in rd.toks.iter().zip(rd.spans.iter()).enumerate() {
            let Some(occ) = &tok.occ else { continue };
            // One cursor per identifier token (start, or a tape-chosen inner offset); all offsets when dense.
            let offsets: Vec<usize> = if dense { (sp.0..sp.1).collect() } else { vec![sp.0 + tape.choose(sp.1 - sp.0)] };
            for o in offsets {
                let pos = pos_of(&rd.text, o);
                let uri = ws.uri(&rd.file);
                let prep = match lsp.position_request("textDocument/prepareRename", &uri, pos, json!({})) {
                    Ok(v) => v,
                    Err(e) => {
                        r.fail(lsp_err(e, "prepareRename"));
                        return;
                    }
                };
                let Some(prep_range) = parse_range(&prep) else { continue };
                let (Some(pa), Some(pb)) = (offset_of(&rd.text, prep_range.0), offset_of(&rd.text, prep_range.1)) else {
                    r.fail(Failure::new("c18:prepare-range", format!("{}@{o}: prepareRename range {prep_range:?} is inside a surrogate pair", rd.file)));
                    return;
                };
                let old_name = rd.text[pa..pb].to_owned();
                if !done.insert((rd.file.clone(), (pa, pb), if dense { o } else { 0 })) {
                    continue;
                }
                let new_name = if old_name.starts_with('@') { format!("@zq{ti}x") } else { format!("zq{ti}x") };
                let res = match lsp.position_request("textDocument/rename", &uri, pos, json!({"newName": new_name})) {
                    Ok(v) => v,
                    Err(e) => {
                        r.fail(lsp_err(e, &format!("rename at {}@{o} (`{old_name}`, {occ:?})", rd.file)));
                        return;
                    }
                };
                renames += 1;
                // Collect the edits per file.
                let mut edits: BTreeMap<String, Vec<(Rng, String)>> = BTreeMap::new();
                if let Some(changes) = res.get("changes").and_then(|c| c.as_object()) {
                    for (u, es) in changes {
                        let Some(file) = ws.file_of_uri(u) else {
                            r.fail(Failure::new("c18:foreign-uri", format!("rename edits a document outside the folder: {u}")));
                            return;
                        };
                        for e in es.as_array().cloned().unwrap_or_default() {
                            let (Some(rg), Some(nt)) = (e.get("range").and_then(parse_range), e.get("newText").and_then(|t| t.as_str())) else {
                                r.fail(Failure::new("c18:malformed-edit", format!("{e}")));
                                return;
                            };
                            edits.entry(file.clone()).or_default().push((rg, nt.to_owned()));
                        }
                    }
                }
                // Expected edit set from the binding table.
                let mut want: BTreeSet<(String, (usize, usize))> = BTreeSet::new();
                let mut kind = "unknown";
                let binder: Option<Bid> = match occ {
                    Occ::DeclName(b) => Some(*b),
                    Occ::Use(b) => *b,
                    Occ::QualUse(_) => match &rd.toks[ti + 2].occ {
                        Some(Occ::Use(b)) => *b,
                        _ => None,
                    },
                    _ => None,
                };
                match occ {
                    Occ::QualDef(imp) => {
                        kind = "qualifier";
                        want.insert((rd.file.clone(), *sp));
                        for (t2, s2) in rd.toks.iter().zip(rd.spans.iter()) {
                            // Every `q` of `q.x` with the same spelling in that module (qualifiers are matched by name).
                            if let Some(Occ::QualUse(i2)) = &t2.occ {
                                if prog.imports[*i2].qualifier == prog.imports[*imp].qualifier {
                                    want.insert((rd.file.clone(), *s2));
                                }
                            }
                        }
                    }
                    _ => {
                        if let Some(b) = binder {
                            kind = match prog.binders[b].kind {
                                BinderKind::Decl { .. } if prog.binders[b].name.starts_with('@') => "reference-declaration",
                                BinderKind::Decl { .. } => "declaration",
                                BinderKind::Param { .. } => "parameter",
                                BinderKind::Rec => "rec-binder",
                            };
                            if let Some(site) = tb.ident_site.get(&b) {
                                want.insert(site.clone());
                            }
                            for u in tb.uses.get(&b).cloned().unwrap_or_default() {
                                want.insert(u);
                            }
                        } else {
                            kind = "built-in";
                        }
                    }
                }
                r.label(format!("rename:{kind}"));
                // (2) non-overlapping edits, each replacing exactly one occurrence of the old name.
                let mut got: BTreeSet<(String, (usize, usize))> = BTreeSet::new();
                let mut n_edits = 0usize;
                for (file, es) in &edits {
                    let text = &texts[file];
                    for (rg, nt) in es {
                        n_edits += 1;
                        let (Some(a), Some(b)) = (offset_of(text, rg.0), offset_of(text, rg.1)) else {
                            r.fail(Failure::new("c18:edit-in-surrogate", format!("{file}: edit range {rg:?}")));
                            return;
                        };
                        if a > b || b > text.len() || &text[a..b] != old_name {
                            r.fail(Failure::new(
                                format!("c18:edit-not-on-old-name:{kind}"),
                                format!("renaming `{old_name}` ({kind}) at {}@{o}: the edit {rg:?} in {file} replaces {:?}", rd.file, text.get(a..b)),
                            ));
                            return;
                        }
                        if *nt != new_name {
                            r.fail(Failure::new("c18:edit-text", format!("edit inserts {nt:?} instead of {new_name:?}")));
                            return;
                        }
                        got.insert((file.clone(), (a, b)));
                    }
                }
                if got.len() != n_edits {
                    r.fail(Failure::new(format!("c18:overlapping-edits:{kind}"), format!("renaming `{old_name}` at {}@{o}: {n_edits} edits on {} distinct ranges", rd.file, got.len())));
                    return;
                }
                if got != want {
                    r.fail(Failure::new(
                        format!("c18:edit-set:{kind}"),
                        format!("renaming `{old_name}` ({kind}) at {}@{o}: edits at {got:?}, occurrences bound to it at {want:?}", rd.file),
                    ));
                    return;
                }
                if want.len() >= 2 {
                    r.label("edits>=2");
                }
                if want.iter().map(|(f, _)| f).collect::<BTreeSet<_>>().len() >= 2 {
                    r.label("edits-span-files");
                }
                // (3) apply the edits client-side; the program must mean the same.
                let mut after = before_sources.clone();
                for (file, es) in &edits {
                    match apply_edits(&texts[file], es) {
                        Ok(t) => {
                            after.files.insert(file.clone(), t);
                        }
                        Err(e) => {
                            r.fail(Failure::new("c18:edits-do-not-apply", e));
                            return;
                        }
                    }
                }
                match doc_json(&after) {
                    Err(v) => {
                        r.fail(Failure::new(
                            format!("c18:renamed-program-{}:{kind}", v.split(':').next().unwrap_or("")),
                            format!("after renaming `{old_name}` ({kind}) to `{new_name}` the program is {v}"),
                        ));
                        return;
                    }
                    Ok(after_doc) => {
                        let expect = if kind == "reference-declaration" {
                            rename_component(&before_doc, old_name.trim_start_matches('@'), new_name.trim_start_matches('@'))
                        } else {
                            before_doc.clone()
                        };
                        if let Err(d) = equivalent(&after_doc, &expect) {
                            r.fail(Failure::new(format!("c18:document-changes:{kind}"), format!("after renaming `{old_name}` ({kind}): {d}")));
                            return;
                        }
                    }
                }
            }
        }
    }
    if !lsp.alive() {
        r.fail(Failure::new("c18:server-died:after", "the server exited".to_owned()));
    }
    r.evaluations = renames.max(1);
    r.count("renames", renames);
}

impl Property for C18 {
    fn id(&self) -> &'static str {
        "C18"
    }
    fn tape_len(&self) -> usize {
        4000
    }
    fn cases(&self, tier: Tier) -> u64 {
        n_cases(tier)
    }
    fn rule(&self) -> String {
        "Cases: accepted generated multi-module programs in shadowing mode (as C17), served by the real oal-lsp from a scratch workspace; for \
         every identifier token one cursor offset inside it (every offset in the thorough tier): prepareRename, and where it answers a range, \
         rename to a fresh name of the same lexical class (@... for references). Oracle: (1) the server answers and stays alive; (2) edits are \
         pairwise distinct, each range's current text is the old name (= the text of the prepareRename range) and inserts the new name, and \
         the set of edited ranges is exactly {binding identifier} + {uses bound to it by the generator's binding table} across all files (for \
         a qualifier: its `as q` site and the q of every q.x in that module; for the built-in: nothing); (3) the edits are applied \
         client-side through R-pos; the edited sources compile and the document is R-eq to the original's, with the component key renamed \
         when an @reference was renamed. evaluations counts renames. Non-trivial: a rename with >= 2 edits or edits in >= 2 files. Distinct \
         by source hash."
            .to_owned()
    }
    fn assumptions(&self) -> Vec<String> {
        vec!["new names are fresh (zq<n>x): renaming to a name already in scope is outside the property".into()]
    }
    fn run_case(&self, tape: &mut Tape, ctx: &CaseCtx) -> CaseReport {
        let mut r = CaseReport::default();
        let Some((prog, rendered, _)) = gen_program(tape) else {
            r.label("not-accepted");
            let (f, src) = crate::props::c17::rejected_failure("c18");
            r.fail(f);
            r.rendered = src.map(|s| json!({"sources": s.to_json()}));
            return r;
        };
        let sources = to_sources(&rendered);
        r.hash = sources.hash64();
        let dense = ctx.tier == Tier::Thorough && tape.chance(1, 4);
        check_program(&prog, &rendered, tape, dense, &mut r);
        r.nontrivial = r.has_label("edits>=2") || r.has_label("edits-span-files");
        if ctx.want_rendered || r.failure.is_some() {
            r.rendered = Some(json!({"sources": sources.to_json()}));
        }
        r
    }
    fn replay(&self, case: &Value) -> Option<Result<(), Failure>> {
        // A saved text: rename at every identifier-looking position must keep the server alive
        // (the structural oracle needs the generator's binding table and goes through the tape).
        let sources: Sources = serde_json::from_value(case.get("sources")?.clone()).ok()?;
        let ws = Workspace::create("c18r", &sources.files, &sources.main);
        let mut lsp = match ws.start() {
            Ok(l) => l,
            Err(e) => return Some(Err(lsp_err(e, "start"))),
        };
        for (file, text) in &sources.files {
            for o in 0..text.len() {
                if !text.is_char_boundary(o) {
                    continue;
                }
                let pos = pos_of(text, o);
                let uri = ws.uri(file);
                match lsp.position_request("textDocument/prepareRename", &uri, pos, json!({})) {
                    Err(e) => return Some(Err(lsp_err(e, "prepareRename"))),
                    Ok(v) => {
                        if parse_range(&v).is_some() {
                            if let Err(e) = lsp.position_request("textDocument/rename", &uri, pos, json!({"newName": "zq0x"})) {
                                return Some(Err(lsp_err(e, &format!("rename at {file}@{o}"))));
                            }
                        }
                    }
                }
            }
        }
        Some(Ok(()))
    }
}
