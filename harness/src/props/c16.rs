//! C16 — editor positions and byte offsets convert exactly in both directions.

use crate::engine::{CaseCtx, CaseReport, Failure, Property, Tier};
use crate::gen::text::{decode_seq, seq_space};
use crate::tape::Tape;
use oal_client::lsp::unicode::verif as impl_;
use oal_model::span::{CharSpan, Span};
use serde_json::{json, Value};

pub struct C16;

const UNITS: [&str; 6] = ["a", "\u{e9}", "\u{20ac}", "\u{1F600}", "\n", "\r\n"];

fn max_len(tier: Tier) -> u32 {
    match tier {
        Tier::Quick => 5,
        Tier::Thorough => 6,
    }
}

fn n_random(tier: Tier) -> u64 {
    match tier {
        Tier::Quick => 150_000,
        Tier::Thorough => 4_000_000,
    }
}

// ---------------------------------------------------------------------------------------
// R-pos: the reference conversion, written from the LSP 3.17 text.

/// Position of a byte offset on a character boundary.
pub fn ref_offset_to_pos(t: &str, o: usize) -> (u32, u32) {
    let before = &t[..o];
    let line = before.matches('\n').count() as u32;
    let line_start = before.rfind('\n').map(|i| i + 1).unwrap_or(0);
    let col = t[line_start..o].encode_utf16().count() as u32;
    (line, col)
}

/// Byte offset of a position, with the protocol's clamping; `None` inside a surrogate pair.
pub fn ref_pos_to_offset(t: &str, pos: (u32, u32)) -> Option<usize> {
    let mut starts = vec![0usize];
    for (i, b) in t.bytes().enumerate() {
        if b == b'\n' {
            starts.push(i + 1);
        }
    }
    let line = pos.0 as usize;
    if line >= starts.len() {
        return Some(t.len());
    }
    let s = starts[line];
    let mut e = if line + 1 < starts.len() { starts[line + 1] - 1 } else { t.len() };
    if e > s && t.as_bytes()[e - 1] == b'\r' {
        e -= 1;
    }
    let mut units = 0u32;
    for (i, c) in t[s..e].char_indices() {
        if units == pos.1 {
            return Some(s + i);
        }
        if units > pos.1 {
            return None;
        }
        units += c.len_utf16() as u32;
    }
    if units > pos.1 {
        return None;
    }
    Some(e)
}

fn inside_crlf(t: &str, o: usize) -> bool {
    o > 0 && o < t.len() && t.as_bytes()[o - 1] == b'\r' && t.as_bytes()[o] == b'\n'
}

/// Runs all checks on one text; returns (number of checks, first failure).
pub fn check_text(t: &str, all_spans: bool) -> (u64, Option<Failure>) {
    let mut n = 0u64;
    let bounds: Vec<usize> = (0..=t.len()).filter(|o| t.is_char_boundary(*o)).collect();
    // (1) offset -> position -> offset
    for &o in &bounds {
        if inside_crlf(t, o) {
            continue;
        }
        n += 1;
        let p = impl_::utf8_to_position(t, o);
        let rp = ref_offset_to_pos(t, o);
        if p != rp {
            return (n, Some(Failure::new("c16:offset-to-position", format!("text {t:?} offset {o}: utf8_to_position = {p:?}, reference = {rp:?}"))));
        }
        let back = impl_::position_to_utf8(t, p);
        if back != o {
            return (n, Some(Failure::new("c16:round-trip", format!("text {t:?} offset {o} -> {p:?} -> {back}"))));
        }
    }
    // (2) position -> offset, including out-of-range positions
    let n_lines = t.matches('\n').count() as u32 + 1;
    let max_col = t.split('\n').map(|l| l.encode_utf16().count()).max().unwrap_or(0) as u32 + 2;
    for line in 0..=n_lines + 1 {
        for col in 0..=max_col {
            let Some(expect) = ref_pos_to_offset(t, (line, col)) else { continue };
            n += 1;
            let got = impl_::position_to_utf8(t, (line, col));
            if got != expect {
                return (
                    n,
                    Some(Failure::new(
                        "c16:position-to-offset",
                        format!("text {t:?} position ({line},{col}): position_to_utf8 = {got}, reference = {expect}"),
                    )),
                );
            }
        }
    }
    // (3) the range sent for a span selects exactly the span's text
    let loc = crate::oal::locator("main.oal");
    for (i, &a) in bounds.iter().enumerate() {
        if inside_crlf(t, a) {
            continue;
        }
        let ends: Vec<usize> = if all_spans { bounds[i..].to_vec() } else { bounds[i..].iter().take(4).copied().collect() };
        for b in ends {
            if inside_crlf(t, b) {
                continue;
            }
            n += 1;
            let (ps, pe) = impl_::utf8_range_to_position(t, a..b);
            let (Some(ra), Some(rb)) = (ref_pos_to_offset(t, ps), ref_pos_to_offset(t, pe)) else {
                return (n, Some(Failure::new("c16:range-in-surrogate", format!("text {t:?} span {a}..{b}: range {ps:?}-{pe:?} points inside a surrogate pair"))));
            };
            if (ra, rb) != (a, b) {
                return (
                    n,
                    Some(Failure::new(
                        "c16:range-selects-other-text",
                        format!("text {t:?} span {a}..{b} ({:?}): range {ps:?}-{pe:?} selects {ra}..{rb} ({:?}) in the client's document", &t[a..b], t.get(ra..rb)),
                    )),
                );
            }
            // (4) code point spans used by the CLI / playground reports
            let cs = CharSpan::from(t, Span::new(loc.clone(), a..b));
            let (ea, eb) = (t[..a].chars().count(), t[..b].chars().count());
            if (cs.start, cs.end) != (ea, eb) {
                return (n, Some(Failure::new("c16:char-span", format!("text {t:?} span {a}..{b}: CharSpan = {}..{}, expected {ea}..{eb}", cs.start, cs.end))));
            }
        }
    }
    // (4') the end-of-input span len..len+1 is clamped to the end
    n += 1;
    let cs = CharSpan::from(t, Span::new(loc, t.len()..t.len() + 1));
    let total = t.chars().count();
    if (cs.start, cs.end) != (total, total) {
        return (n, Some(Failure::new("c16:char-span-eoi", format!("text {t:?}: end-of-input CharSpan = {}..{}, expected {total}..{total}", cs.start, cs.end))));
    }
    (n, None)
}

fn random_text(tape: &mut Tape) -> String {
    const EXTRA: [&str; 10] = [" ", "\t", "x", "Z", "0", "\u{df}", "\u{4e2d}", "\u{1F980}", "\u{301}", "\u{10FFFF}"];
    let len = tape.range(0, 400);
    let mut s = String::new();
    for _ in 0..len {
        match tape.weighted(&[5, 3, 2, 2]) {
            0 => s.push_str(tape.pick(&UNITS)),
            1 => s.push_str(tape.pick(&EXTRA)),
            2 => s.push('\n'),
            _ => s.push_str("\r\n"),
        }
    }
    s
}

impl Property for C16 {
    fn id(&self) -> &'static str {
        "C16"
    }
    fn tape_len(&self) -> usize {
        900
    }
    fn cases(&self, tier: Tier) -> u64 {
        seq_space(6, max_len(tier)) + n_random(tier)
    }
    fn rule(&self) -> String {
        "Cases: every text of <= L units over {a, e-acute (2 bytes), euro (3 bytes), grinning face (4 bytes, 2 UTF-16 units), LF, CRLF} \
         (L=5 quick: 9331 texts; L=6 thorough: 55987 texts), then random texts up to 400 units over that alphabet plus tabs, combining \
         marks, CJK, U+10FFFF. For each text: every byte offset on a character boundary (not strictly inside a CRLF), every position \
         with line <= lines+1 and column <= longest line + 2 (not inside a surrogate pair), every span on boundaries (first 4 ends per \
         start for random texts). Oracle: an independent reference conversion written from the LSP text (lines end at LF or CRLF, \
         columns count UTF-16 units, columns beyond the line clamp to its end, lines beyond the text clamp to the end of the text). \
         evaluations counts individual conversions checked. Non-trivial: text with a multi-unit character and a line break; distinct by text."
            .to_owned()
    }
    fn assumptions(&self) -> Vec<String> {
        vec![
            "an offset strictly between CR and LF has no position in the protocol; it is outside the round-trip domain (counted)".into(),
            "a column inside a surrogate pair is undefined by the protocol; it is outside the domain".into(),
            "lone CR is not in the property's alphabet and is not generated".into(),
        ]
    }
    fn exhaustive(&self, tier: Tier) -> Option<String> {
        Some(format!("all {} texts of <= {} units over the 6-unit alphabet, with all offsets, positions and spans", seq_space(6, max_len(tier)), max_len(tier)))
    }
    fn run_case(&self, tape: &mut Tape, ctx: &CaseCtx) -> CaseReport {
        let space = seq_space(6, max_len(ctx.tier));
        let (text, exhaustive) = if ctx.index < space {
            (decode_seq(ctx.index, 6, max_len(ctx.tier)).iter().map(|u| UNITS[*u]).collect::<String>(), true)
        } else {
            (random_text(tape), false)
        };
        let mut r = CaseReport::default();
        r.hash = {
            use std::hash::{Hash, Hasher};
            let mut h = std::collections::hash_map::DefaultHasher::new();
            text.hash(&mut h);
            h.finish()
        };
        let (n, f) = check_text(&text, exhaustive);
        r.evaluations = n;
        r.nontrivial = text.contains('\n') && text.chars().any(|c| c.len_utf8() > 1);
        r.label(if exhaustive { "exhaustive" } else { "random" });
        if text.contains('\u{1F600}') || text.contains('\u{1F980}') {
            r.label("astral");
        }
        if text.contains("\r\n") {
            r.label("crlf");
        }
        r.count("crlf_interior_offsets_excluded", (0..=text.len()).filter(|o| inside_crlf(&text, *o)).count() as u64);
        if let Some(f) = f {
            r.fail(f);
        }
        if ctx.want_rendered || r.failure.is_some() {
            r.rendered = Some(json!({"text": text}));
        }
        r
    }
    fn replay(&self, case: &Value) -> Option<Result<(), Failure>> {
        let text = case.get("text")?.as_str()?;
        Some(match check_text(text, true).1 {
            Some(f) => Err(f),
            None => Ok(()),
        })
    }
}
