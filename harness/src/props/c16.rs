//! C16 — editor positions and byte offsets convert exactly in both directions.

use crate::engine::{CaseCtx, CaseReport, Failure, Property, Tier};
use crate::gen::text::{decode_seq, seq_space};
use crate::tape::Tape;
use oal_client::lsp::unicode::verif as impl_;
use oal_model::span::{CharSpan, Span};
use serde_json::{json, Value};

pub struct C16;

const UNITS: [&str; 6] = ["a", "\u{e9}", "\u{20ac}", "\u{1F600}", "\n", "\r\n"];

fn max_len(tier: Tier) -> u32 {
    match tier {
        Tier::Quick => 5,
        Tier::Thorough => 6,
    }
}

fn n_random(tier: Tier) -> u64 {
    match tier {
        Tier::Quick => 150_000,
        Tier::Thorough => 4_000_000,
    }
}

// ---------------------------------------------------------------------------------------
// R-pos: the reference conversion, written from the LSP 3.17 text.

/// Position of a byte offset on a character boundary.
pub fn ref_offset_to_pos(t: &str, o: usize) -> (u32, u32) {
    let before = &t[..o];
    let line = before.matches('\n').count() as u32;
    let line_start = before.rfind('\n').map(|i| i + 1).unwrap_or(0);
    let col = t[line_start..o].encode_utf16().count() as u32;
    (line, col)
}

/// Byte offset of a position, with the protocol's clamping; `None` inside a surrogate pair.
pub fn ref_pos_to_offset(t: &str, pos: (u32, u32)) -> Option<usize> {
    let mut starts = vec![0usize];
    for (i, b) in t.bytes().enumerate() {
        if b == b'\n' {
            starts.push(i + 1);
        }
    }
    let line = pos.0 as usize;
    if line >= starts.len() {
        return Some(t.len());
    }
    let s = starts[line];
    let mut e = if line + 1 < starts.len() { starts[line + 1] - 1 } else { t.len() };
    if e > s && t.as_bytes()[e - 1] == b'\r' {
        e -= 1;
    }
    let mut units = 0u32;
    for (i, c) in t[s..e].char_indices() {
        if units == pos.1 {
            return Some(s + i);
        }
        if units > pos.1 {
            return None;
        }
        units += c.len_utf16() as u32;
    }
    if units > pos.1 {
        return None;
    }
    Some(e)
}

fn inside_crlf(t: &str, o: usize) -> bool {
    o > 0 && o < t.len() && t.as_bytes()[o - 1] == b'\r' && t.as_bytes()[o] == b'\n'
}

/// Runs all checks on one text; returns (number of checks, first failure).
pub fn check_text(t: &str, all_spans: bool) -> (u64, Option<Failure>) {
    let mut n = 0u64;
    let bounds: Vec<usize> = (0..=t.len()).filter(|o| t.is_char_boundary(*o)).collect();
    // (1) offset -> position -> offset
    for &o in &bounds {
        if inside_crlf(t, o) {
            continue;
        }
        n += 1;
        let p = impl_::utf8_to_position(t, o);
        let rp = ref_offset_to_pos(t, o);
        if p != rp {
            return (n, Some(Failure::new("c16:offset-to-position", format!("text {t:?} offset {o}: utf8_to_position = {p:?}, reference = {rp:?}"))));
        }
        let back = impl_::position_to_utf8(t, p);
        if back != o {
            return (n, Some(Failure::new("c16:round-trip", format!("text {t:?} offset {o} -> {p:?} -> {back}"))));
        }
    }
    // (2) position -> offset, including out-of-range positions
    let n_lines = t.matches('\n').count() as u32 + 1;
    let max_col = t.split('\n').map(|l| l.encode_utf16().count()).max().unwrap_or(0) as u32 + 2;
    for line in 0..=n_lines + 1 {
        for col in 0..=max_col {
            let Some(expect) = ref_pos_to_offset(t, (line, col)) else { continue };
            n += 1;
            let got = impl_::position_to_utf8(t, (line, col));
            if got != expect {
                return (
                    n,
                    Some(Failure::new(
                        "c16:position-to-offset",
                        format!("text {t:?} position ({line},{col}): position_to_utf8 = {got}, reference = {expect}"),
                    )),
                );
            }
        }
    }
    // (3) the range sent for a span selects exactly the span's text
    let loc = crate::oal::locator("main.oal");
    for (i, &a) in bounds.iter().enumerate() {
        if inside_crlf(t, a) {
            continue;
        }
        let ends: Vec<usize> = if all_spans { bounds[i..].to_vec() } else { bounds[i..].iter().take(4).copied().collect() };
        for b in ends {
            if inside_crlf(t, b) {
                continue;
            }
            n += 1;
            let (ps, pe) = impl_::utf8_range_to_position(t, a..b);
            let (Some(ra), Some(rb)) = (ref_pos_to_offset(t, ps), ref_pos_to_offset(t, pe)) else {
                return (n, Some(Failure::new("c16:range-in-surrogate", format!("text {t:?} span {a}..{b}: range {ps:?}-{pe:?} points inside a surrogate pair"))));
            };
            if (ra, rb) != (a, b) {
                return (
                    n,
                    Some(Failure::new(
                        "c16:range-selects-other-text",
                        format!("text {t:?} span {a}..{b} ({:?}): range {ps:?}-{pe:?} selects {ra}..{rb} ({:?}) in the client's document", &t[a..b], t.get(ra..rb)),
                    )),
                );
            }
            // (4) code point spans used by the CLI / playground reports
            let cs = CharSpan::from(t, Span::new(loc.clone(), a..b));
            let (ea, eb) = (t[..a].chars().count(), t[..b].chars().count());
            if (cs.start, cs.end) != (ea, eb) {
                return (n, Some(Failure::new("c16:char-span", format!("text {t:?} span {a}..{b}: CharSpan = {}..{}, expected {ea}..{eb}", cs.start, cs.end))));
            }
        }
    }
    // (4') the end-of-input span len..len+1 is clamped to the end
    n += 1;
    let cs = CharSpan::from(t, Span::new(loc, t.len()..t.len() + 1));
    let total = t.chars().count();
    if (cs.start, cs.end) != (total, total) {
        return (n, Some(Failure::new("c16:char-span-eoi", format!("text {t:?}: end-of-input CharSpan = {}..{}, expected {total}..{total}", cs.start, cs.end))));
    }
    (n, None)
}

fn n_server(tier: Tier) -> u64 {
    match tier {
        Tier::Quick => 600,
        Tier::Thorough => 12_000,
    }
}

// ---------------------------------------------------------------------------------------
// The server door: the ranges the real oal-lsp publishes for the spans of syntax errors.

thread_local! {
    static SERVER: std::cell::RefCell<Option<(crate::lspc::Scratch, crate::lspc::Lsp)>> = const { std::cell::RefCell::new(None) };
}

/// The syntax errors of a text with their spans, as the server logs them.
fn syntax_errors(text: &str) -> Vec<((usize, usize), String)> {
    let loc = crate::oal::locator("main.oal");
    let (_, errs) = oal_syntax::parse::<_, oal_compiler::tree::Core>(loc, text.to_owned());
    errs.iter()
        .map(|e| {
            let span = match e {
                oal_syntax::errors::Error::Grammar(g) => (g.span().start(), g.span().end()),
                oal_syntax::errors::Error::Lexicon(l) => (l.span().start(), l.span().end()),
                _ => (0, 0),
            };
            (span, e.to_string())
        })
        .collect()
}

/// Every syntax error of `text` must be among the published diagnostics with the range that
/// selects its span in `text` (the client's document). Returns the number of ranges checked.
fn check_published(text: &str, published: &[Value], what: &str) -> Result<u64, Failure> {
    let mut n = 0;
    for ((a, b), msg) in syntax_errors(text) {
        let (a, b) = (a.min(text.len()), b.min(text.len()));
        if !text.is_char_boundary(a) || !text.is_char_boundary(b) || inside_crlf(text, a) || inside_crlf(text, b) {
            continue;
        }
        let want = crate::lspcheck::range_of(text, (a, b));
        // Messages name the module by its URL, which differs between the harness and the server.
        let strip = |m: &str| -> String {
            match (m.find("file://"), m.rfind('#')) {
                (Some(i), Some(j)) if i < j => format!("{}{}", &m[..i], &m[j..]),
                _ => m.to_owned(),
            }
        };
        let found: Vec<crate::lspcheck::Rng> =
            published.iter().filter(|d| d["message"].as_str().map(strip) == Some(strip(&msg))).filter_map(|d| crate::lspcheck::parse_range(&d["range"])).collect();
        if !found.contains(&want) {
            return Err(Failure::new(
                "c16:server-range",
                format!("{what}: the syntax error `{msg}` at bytes {a}..{b} must be published with range {want:?} (which selects {:?} in the client's text); published for that message: {found:?}", &text[a..b]),
            ));
        }
        n += 1;
    }
    Ok(n)
}

/// One session: the open document is changed to `t1`; then (if given) the document is closed
/// without saving while the file holds `t2`, and opened again with `t2`.
fn check_server(t1: &str, t2: Option<&str>, edits: Option<(u32, u32)>, r: &mut CaseReport) {
    use crate::lspc::{Lsp, LspError, Scratch};
    SERVER.with(|cell| {
        let mut cell = cell.borrow_mut();
        if cell.is_none() {
            let dir = Scratch::new("c16lsp");
            dir.write("oal.toml", "[api]\nmain = \"main.oal\"\ntarget = \"out.yaml\"\n");
            dir.write("main.oal", "res / on get -> <>;\n");
            match Lsp::start(&dir.path) {
                Ok(mut lsp) => {
                    let uri = dir.uri("main.oal");
                    let _ = lsp.did_open(&uri, "res / on get -> <>;\n");
                    *cell = Some((dir, lsp));
                }
                Err(e) => {
                    r.fail(Failure::new("lsp:cannot-start", format!("{e:?}")));
                    return;
                }
            }
        }
        let (dir, lsp) = cell.as_mut().unwrap();
        let uri = dir.uri("main.oal");
        let mut session = || -> Result<Result<u64, Failure>, LspError> {
            let mut n = 0;
            lsp.did_change(&uri, &[(None, t1.to_owned())])?;
            lsp.barrier(&uri)?;
            match check_published(t1, lsp.diags.get(&uri).map(|v| v.as_slice()).unwrap_or(&[]), "after a full-text change") {
                Ok(k) => n += k,
                Err(f) => return Ok(Err(f)),
            }
            if let (Some(t2), Some(pick)) = (t2, edits) {
                // One didChange with two ranged changes in document order turns t1 into t2: the
                // second range refers to the text the first change leaves.
                let changes: Vec<(Option<((u32, u32), (u32, u32))>, String)> = crate::lspcheck::two_edits(t1, t2, pick).into_iter().map(|(rg, t)| (Some(rg), t)).collect();
                lsp.did_change(&uri, &changes)?;
                lsp.barrier(&uri)?;
                match check_published(t2, lsp.diags.get(&uri).map(|v| v.as_slice()).unwrap_or(&[]), "after one didChange with two ranged changes in document order") {
                    Ok(k) => n += k,
                    Err(f) => return Ok(Err(f)),
                }
            } else if let Some(t2) = t2 {
                dir.write("main.oal", t2);
                lsp.did_close(&uri)?;
                lsp.barrier(&uri)?;
                match check_published(t2, lsp.diags.get(&uri).map(|v| v.as_slice()).unwrap_or(&[]), "after closing the changed document without saving (the file holds another text)") {
                    Ok(k) => n += k,
                    Err(f) => return Ok(Err(f)),
                }
                lsp.did_open(&uri, t2)?;
                lsp.barrier(&uri)?;
                match check_published(t2, lsp.diags.get(&uri).map(|v| v.as_slice()).unwrap_or(&[]), "after opening the document again") {
                    Ok(k) => n += k,
                    Err(f) => return Ok(Err(f)),
                }
            }
            Ok(Ok(n))
        };
        match session() {
            Ok(Ok(n)) => r.evaluations = n.max(1),
            Ok(Err(f)) => {
                r.fail(f);
                *cell = None;
            }
            Err(LspError::Died(status, stderr)) => {
                let site = crate::props::c04::panic_site(&stderr);
                let sig = if site.contains(".rs:") { format!("panic:{site}") } else { format!("lsp:{status}:{site}") };
                r.fail(Failure::new(sig, format!("oal-lsp died ({status}); stderr tail: {}", stderr.chars().rev().take(400).collect::<String>().chars().rev().collect::<String>())));
                *cell = None;
            }
            Err(LspError::Timeout) => {
                r.label("lsp-timeout-inconclusive");
                *cell = None;
            }
            Err(LspError::Protocol(m)) => {
                r.fail(Failure::new("lsp:protocol", m));
                *cell = None;
            }
        }
    });
}

/// Comment lines over the conversion alphabet (no line breaks inside a line).
fn comment_prefix(tape: &mut Tape) -> String {
    const IN_LINE: [&str; 8] = ["a", "\u{e9}", "\u{20ac}", "\u{1F600}", " ", "x", "\u{4e2d}", "\u{1F980}"];
    let lines = tape.range(0, 4);
    let mut s = String::new();
    for _ in 0..lines {
        s.push_str("// ");
        for _ in 0..tape.range(0, 12) {
            s.push_str(tape.pick(&IN_LINE));
        }
        s.push_str(if tape.chance(1, 2) { "\r\n" } else { "\n" });
    }
    s
}

/// The definition door: a location in ANOTHER document. main.oal uses `m.x` from mod.oal; both
/// start with different comment lines, so that a range computed in the wrong text shows. The
/// answer must be the one location whose range selects the declaration in mod.oal's text.
fn check_definition(main_prefix: &str, mod_prefix: &str, r: &mut CaseReport) {
    use crate::lspc::LspError;
    // The use of `x` stands at column 0 of a line of its own.
    let main_text = format!("{main_prefix}use \"mod.oal\" ;\nlet y =\nx ;\nres / on get -> < y > ;\n");
    let mod_text = format!("{mod_prefix}let x = str ;\n");
    SERVER.with(|cell| {
        let mut cell = cell.borrow_mut();
        if cell.is_none() {
            let dir = crate::lspc::Scratch::new("c16lsp");
            dir.write("oal.toml", "[api]\nmain = \"main.oal\"\ntarget = \"out.yaml\"\n");
            dir.write("main.oal", "res / on get -> <>;\n");
            match crate::lspc::Lsp::start(&dir.path) {
                Ok(mut lsp) => {
                    let uri = dir.uri("main.oal");
                    let _ = lsp.did_open(&uri, "res / on get -> <>;\n");
                    *cell = Some((dir, lsp));
                }
                Err(e) => {
                    r.fail(Failure::new("lsp:cannot-start", format!("{e:?}")));
                    return;
                }
            }
        }
        let (dir, lsp) = cell.as_mut().unwrap();
        let (uri, mod_uri) = (dir.uri("main.oal"), dir.uri("mod.oal"));
        dir.write("mod.oal", &mod_text);
        let at = main_text.find("\nx ;").unwrap() + 1;
        let pos = crate::lspcheck::pos_of(&main_text, at);
        // The module may be cached from an earlier case: open it with its new text, as an editor would.
        let res = lsp
            .did_open(&mod_uri, &mod_text)
            .and_then(|_| lsp.did_change(&uri, &[(None, main_text.clone())]))
            .and_then(|_| lsp.position_request("textDocument/definition", &uri, pos, json!({})));
        let answer = match res {
            Ok(v) => v,
            Err(LspError::Died(status, stderr)) => {
                let site = crate::props::c04::panic_site(&stderr);
                r.fail(Failure::new(if site.contains(".rs:") { format!("panic:{site}") } else { format!("lsp:{status}:{site}") }, format!("oal-lsp died ({status}) on a definition request")));
                *cell = None;
                return;
            }
            Err(LspError::Timeout) => {
                r.label("lsp-timeout-inconclusive");
                *cell = None;
                return;
            }
            Err(LspError::Protocol(m)) => {
                r.fail(Failure::new("lsp:protocol", m));
                *cell = None;
                return;
            }
        };
        // find-references from the same place: exactly that use, as a range in main's text.
        let refs = match lsp.position_request("textDocument/references", &uri, pos, json!({"context": {"includeDeclaration": false}})) {
            Ok(v) => crate::lspcheck::reference_locations(&v),
            Err(_) => {
                r.fail(Failure::new("lsp:references", "no answer to a references request".to_owned()));
                *cell = None;
                return;
            }
        };
        let want_ref = crate::lspcheck::range_of(&main_text, (at, at + 1));
        if refs.len() != 1 || refs[0].1 != want_ref || !refs[0].0.ends_with("main.oal") {
            r.fail(Failure::new(
                "c16:reference-range",
                format!("find-references on the use of `x` at the start of a line must answer main.oal {want_ref:?} (which selects `x` in the client's text); the server answers {refs:?}"),
            ));
            *cell = None;
            return;
        }
        let _ = lsp.did_close(&mod_uri);
        let start = mod_text.find("let x").unwrap();
        let want = crate::lspcheck::range_of(&mod_text, (start, mod_text.rfind(';').unwrap() + 1));
        let got = crate::lspcheck::definition_locations(&answer);
        r.evaluations = 1;
        if got.len() != 1 || got[0].1 != want || !got[0].0.ends_with("mod.oal") {
            r.fail(Failure::new(
                "c16:definition-range",
                format!("go-to-definition on `x` must answer mod.oal {want:?} (which selects `let x = str ;` in the text of mod.oal); the server answers {got:?}"),
            ));
            *cell = None;
        }
    });
}

/// A text for the server door: mostly oal-like lines (so that spans of several kinds of syntax
/// errors arise) mixed with the units of the conversion alphabet.
fn server_text(tape: &mut Tape) -> String {
    const PIECES: [&str; 16] = ["let a = num;", "let b = { 'x str };", "res / on get -> <>;", "\"caf\u{e9} \u{1F600}", "// \u{20ac}\u{1F600}", "/* \u{e9}", "^", "\u{e9}", "\u{1F600}", "let", "= ;", "\"ok\"", "# title: \"\u{540d}\"", "'p", "12345678901234567890123", "@r"];
    let n = tape.range(1, 14);
    let mut s = String::new();
    for _ in 0..n {
        match tape.weighted(&[6, 2, 2, 2]) {
            0 => s.push_str(tape.pick(&PIECES)),
            1 => s.push_str(tape.pick(&UNITS)),
            2 => s.push('\n'),
            _ => s.push_str("\r\n"),
        }
        if tape.chance(1, 2) {
            s.push(' ');
        }
    }
    s
}

fn random_text(tape: &mut Tape) -> String {
    const EXTRA: [&str; 10] = [" ", "\t", "x", "Z", "0", "\u{df}", "\u{4e2d}", "\u{1F980}", "\u{301}", "\u{10FFFF}"];
    let len = tape.range(0, 400);
    let mut s = String::new();
    for _ in 0..len {
        match tape.weighted(&[5, 3, 2, 2]) {
            0 => s.push_str(tape.pick(&UNITS)),
            1 => s.push_str(tape.pick(&EXTRA)),
            2 => s.push('\n'),
            _ => s.push_str("\r\n"),
        }
    }
    s
}

impl Property for C16 {
    fn id(&self) -> &'static str {
        "C16"
    }
    fn tape_len(&self) -> usize {
        900
    }
    fn cases(&self, tier: Tier) -> u64 {
        seq_space(6, max_len(tier)) + n_random(tier) + n_server(tier)
    }
    fn rule(&self) -> String {
        "Cases: every text of <= L units over {a, e-acute (2 bytes), euro (3 bytes), grinning face (4 bytes, 2 UTF-16 units), LF, CRLF} \
         (L=5 quick: 9331 texts; L=6 thorough: 55987 texts), then random texts up to 400 units over that alphabet plus tabs, combining \
         marks, CJK, U+10FFFF. For each text: every byte offset on a character boundary (not strictly inside a CRLF), every position \
         with line <= lines+1 and column <= longest line + 2 (not inside a surrogate pair), every span on boundaries (first 4 ends per \
         start for random texts). Oracle: an independent reference conversion written from the LSP text (lines end at LF or CRLF, \
         columns count UTF-16 units, columns beyond the line clamp to its end, lines beyond the text clamp to the end of the text). \
         evaluations counts individual conversions checked. Non-trivial: text with a multi-unit character and a line break; distinct by text."
            .to_owned()
    }
    fn assumptions(&self) -> Vec<String> {
        vec![
            "an offset strictly between CR and LF has no position in the protocol; it is outside the round-trip domain (counted)".into(),
            "a column inside a surrogate pair is undefined by the protocol; it is outside the domain".into(),
            "lone CR is not in the property's alphabet and is not generated".into(),
        ]
    }
    fn exhaustive(&self, tier: Tier) -> Option<String> {
        Some(format!("all {} texts of <= {} units over the 6-unit alphabet, with all offsets, positions and spans", seq_space(6, max_len(tier)), max_len(tier)))
    }
    fn run_case(&self, tape: &mut Tape, ctx: &CaseCtx) -> CaseReport {
        let space = seq_space(6, max_len(ctx.tier));
        if ctx.index >= space + n_random(ctx.tier) && tape.chance(1, 4) {
            let (a, b) = (comment_prefix(tape), comment_prefix(tape));
            let mut r = CaseReport::default();
            r.hash = {
                use std::hash::{Hash, Hasher};
                let mut h = std::collections::hash_map::DefaultHasher::new();
                (&a, &b, 2u8).hash(&mut h);
                h.finish()
            };
            check_definition(&a, &b, &mut r);
            r.label("server-door:definition-in-another-document");
            r.nontrivial = a != b && (a.chars().any(|c| c.len_utf8() > 1) || b.chars().any(|c| c.len_utf8() > 1));
            if ctx.want_rendered || r.failure.is_some() {
                r.rendered = Some(json!({"server": true, "definition": [a, b]}));
            }
            return r;
        }
        if ctx.index >= space + n_random(ctx.tier) {
            let t1 = if tape.chance(1, 4) { random_text(tape) } else { server_text(tape) };
            let t2 = if tape.chance(2, 3) { Some(if tape.chance(1, 4) { random_text(tape) } else { server_text(tape) }) } else { None };
            let mut r = CaseReport::default();
            r.hash = {
                use std::hash::{Hash, Hasher};
                let mut h = std::collections::hash_map::DefaultHasher::new();
                (&t1, &t2, 1u8).hash(&mut h);
                h.finish()
            };
            let edits = if t2.is_some() && tape.chance(1, 2) { Some((tape.raw(), tape.raw())) } else { None };
            check_server(&t1, t2.as_deref(), edits, &mut r);
            r.label("server-door");
            if t2.is_some() {
                r.label(if edits.is_some() { "server-door:two-ranged-changes" } else { "server-door:close-unsaved" });
            }
            r.nontrivial = r.evaluations >= 1 && (t1.chars().any(|c| c.len_utf8() > 1) || t2.as_deref().map_or(false, |t| t.chars().any(|c| c.len_utf8() > 1)));
            if ctx.want_rendered || r.failure.is_some() {
                r.rendered = Some(json!({"server": true, "t1": t1, "t2": t2, "edits": edits}));
            }
            return r;
        }
        let (text, exhaustive) = if ctx.index < space {
            (decode_seq(ctx.index, 6, max_len(ctx.tier)).iter().map(|u| UNITS[*u]).collect::<String>(), true)
        } else {
            (random_text(tape), false)
        };
        let mut r = CaseReport::default();
        r.hash = {
            use std::hash::{Hash, Hasher};
            let mut h = std::collections::hash_map::DefaultHasher::new();
            text.hash(&mut h);
            h.finish()
        };
        let (n, f) = check_text(&text, exhaustive);
        r.evaluations = n;
        r.nontrivial = text.contains('\n') && text.chars().any(|c| c.len_utf8() > 1);
        r.label(if exhaustive { "exhaustive" } else { "random" });
        if text.contains('\u{1F600}') || text.contains('\u{1F980}') {
            r.label("astral");
        }
        if text.contains("\r\n") {
            r.label("crlf");
        }
        r.count("crlf_interior_offsets_excluded", (0..=text.len()).filter(|o| inside_crlf(&text, *o)).count() as u64);
        if let Some(f) = f {
            r.fail(f);
        }
        if ctx.want_rendered || r.failure.is_some() {
            r.rendered = Some(json!({"text": text}));
        }
        r
    }
    fn replay(&self, case: &Value) -> Option<Result<(), Failure>> {
        if let Some(d) = case.get("definition").and_then(|d| d.as_array()) {
            let mut r = CaseReport::default();
            check_definition(d.first()?.as_str()?, d.get(1)?.as_str()?, &mut r);
            return Some(match r.failure {
                Some(f) => Err(f),
                None => Ok(()),
            });
        }
        if case.get("server").is_some() {
            let mut r = CaseReport::default();
            let edits: Option<(u32, u32)> = case.get("edits").and_then(|e| serde_json::from_value(e.clone()).ok()).flatten();
            check_server(case.get("t1")?.as_str()?, case.get("t2").and_then(|t| t.as_str()), edits, &mut r);
            return Some(match r.failure {
                Some(f) => Err(f),
                None => Ok(()),
            });
        }
        let text = case.get("text")?.as_str()?;
        Some(match check_text(text, true).1 {
            Some(f) => Err(f),
            None => Ok(()),
        })
    }
}
