//! C09 — recursion is cut into named components, finitely and without aliasing.

use crate::engine::{catch, CaseCtx, CaseReport, Failure, Property, Tier};
use crate::gen::ast::*;
use crate::gen::typed::{Gen, GenCfg};
use crate::oal::*;
use crate::props::c02::{check_program, labels_to_report};
use crate::refsem::{expected, Expected};
use crate::tape::Tape;
use serde_json::{json, Value};

pub struct C09;

fn n_cases(tier: Tier) -> u64 {
    match tier {
        Tier::Quick => 200_000,
        Tier::Thorough => 3_000_000,
    }
}

fn count_hash_components(yaml: &str) -> Option<usize> {
    let v = yaml_to_json(yaml).ok()?;
    Some(
        v.get("components")
            .and_then(|c| c.get("schemas"))
            .and_then(|s| s.as_object())
            .map(|m| m.keys().filter(|k| k.starts_with("hash-")).count())
            .unwrap_or(0),
    )
}

impl Property for C09 {
    fn id(&self) -> &'static str {
        "C09"
    }
    fn tape_len(&self) -> usize {
        1800
    }
    fn cases(&self, tier: Tier) -> u64 {
        n_cases(tier)
    }
    fn rule(&self) -> String {
        "Cases: programs from the kind-directed generator in cycle mode: declarations may mention declarations that are still being generated \
         (self loops, mutual recursion through schemas, aliases, contents, properties, relations and functions), `rec` inside function bodies \
         that are applied several times, `rec` inside `rec`, recursion through imported modules; one case in four may also close cycles with \
         nothing to cut at. Oracle: (1) verdict - the reference SCC analysis (iteratively cutting at schema declarations that are not URIs) \
         says accept or reject, the tree must agree and reject with InvalidType; (2) finite time by the CPU watchdog; (3) no aliasing and (4) \
         cut at a component - R-eq against the reference mu-unfolding (coinductive comparison through $ref); (5) emitted once - the number of \
         hash-* components is at most the number of non-atomic implicit instantiations the reference evaluates and at least the number of \
         those instantiated at top level. Non-trivial: a declaration cycle or a rec. Distinct by source hash."
            .to_owned()
    }
    fn assumptions(&self) -> Vec<String> {
        vec![
            "whether two applications with equal arguments are one instantiation or two is left open: only bounds on the component count are asserted".into(),
            "strict-fragment exclusions as for C02 (counted)".into(),
        ]
    }
    fn run_case(&self, tape: &mut Tape, ctx: &CaseCtx) -> CaseReport {
        let invalid = tape.chance(1, 4);
        let cfg = GenCfg { cycles: true, invalid_cycles: invalid, max_decls: 12, annotations: tape.chance(1, 3), ..GenCfg::strict() };
        let (prog, labels) = Gen::new(tape, cfg).program();
        let sources = to_sources(&render_plain(&prog));
        let mut r = CaseReport::default();
        r.hash = sources.hash64();
        let class = check_program(&prog, &sources, &mut r);
        r.label(format!("class:{class}"));
        labels_to_report(&labels, &mut r);
        let (exp, facts) = expected(&prog);
        if r.failure.is_none() {
            if let Expected::Document(_) = exp {
                if let Ok(Outcome::Document { yaml, .. }) = catch(|| pipeline(&sources, None)) {
                    if let Some(h) = count_hash_components(&yaml) {
                        r.max("hash_components", h as u64);
                        if h > facts.implicit_emitted {
                            r.fail(Failure::new(
                                "c09:instantiation-emitted-more-than-once",
                                format!("{h} implicit components emitted for {} instantiations of recursive schemas", facts.implicit_emitted),
                            ));
                        } else if h < facts.implicit_emitted_top {
                            r.fail(Failure::new(
                                "c09:instantiations-share-a-component",
                                format!("{h} implicit components emitted, but {} recursive schemas are instantiated at top level", facts.implicit_emitted_top),
                            ));
                        }
                    }
                }
            }
        }
        r.nontrivial = matches!(class, "document" | "rejected") && (labels.contains("declaration-cycle") || labels.contains("rec") || labels.contains("invalid-cycle"));
        if facts.recursive_decls > 0 {
            r.label("recursive-declaration");
        }
        if facts.rec_evaluations > facts.rec_instances as u64 {
            r.label("rec-evaluated-repeatedly");
        }
        if facts.rec_instances >= 2 {
            r.label("rec-instances>=2");
        }
        if ctx.want_rendered || r.failure.is_some() {
            let actual = match catch(|| pipeline(&sources, None)) {
                Ok(Outcome::Document { yaml, .. }) => yaml,
                Ok(o) => o.verdict(),
                Err(p) => p.signature(),
            };
            r.rendered = Some(json!({"sources": sources.to_json(), "facts": format!("{facts:?}"), "actual": actual, "expected": match exp { Expected::Document(d) => d, other => json!(format!("{other:?}")) }}));
        }
        r
    }
    fn replay(&self, _case: &Value) -> Option<Result<(), Failure>> {
        None
    }
}
