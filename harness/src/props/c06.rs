//! C06 — compilation is deterministic: same sources, byte-identical document.

use crate::engine::{catch, CaseCtx, CaseReport, Failure, Property, Tier};
use crate::gen::ast::{render_plain, to_sources};
use crate::gen::typed::{Gen, GenCfg};
use crate::lspc::{run_cli, Scratch};
use crate::oal::*;
use crate::tape::Tape;
use serde_json::{json, Value};
use std::cell::RefCell;

pub struct C06;

struct Phases {
    in_process: u64,
    cli: u64,
    processes: usize,
    repeats: usize,
}

fn phases(tier: Tier) -> Phases {
    match tier {
        Tier::Quick => Phases { in_process: 30_000, cli: 800, processes: 8, repeats: 5 },
        Tier::Thorough => Phases { in_process: 400_000, cli: 8_000, processes: 24, repeats: 6 },
    }
}

fn yaml_of(sources: &Sources) -> Option<String> {
    match catch(|| pipeline(sources, None)) {
        Ok(Outcome::Document { yaml, .. }) => Some(yaml),
        _ => None,
    }
}

fn first_difference(a: &str, b: &str) -> String {
    for (i, (la, lb)) in a.lines().zip(b.lines()).enumerate() {
        if la != lb {
            return format!("line {}: {:?} vs {:?}", i + 1, la, lb);
        }
    }
    format!("lengths {} vs {}", a.len(), b.len())
}

pub fn check_in_process(sources: &Sources, other: &Sources, repeats: usize, r: &mut CaseReport) -> bool {
    let Some(first) = yaml_of(sources) else { return false };
    r.evaluations = 1;
    for k in 0..repeats {
        // Something else is compiled in between: state must not leak from one compilation to the next.
        let _ = yaml_of(other);
        let again = match yaml_of(sources) {
            Some(y) => y,
            None => {
                r.fail(Failure::new("c06:verdict-changes", format!("compilation #{} of the same sources in one process fails", k + 2)));
                return true;
            }
        };
        r.evaluations += 2;
        if again != first {
            r.fail(Failure::new(
                "c06:in-process-repeat-differs",
                format!("compilation #{} in the same process differs from the first: {}", k + 2, first_difference(&first, &again)),
            ));
            return true;
        }
    }
    // On another thread.
    let s2 = sources.clone();
    let threaded = std::thread::Builder::new().stack_size(32 << 20).spawn(move || yaml_of(&s2)).ok().and_then(|h| h.join().ok()).flatten();
    r.evaluations += 1;
    match threaded {
        Some(y) if y == first => {}
        Some(y) => r.fail(Failure::new("c06:thread-differs", format!("compilation on another thread differs: {}", first_difference(&first, &y)))),
        None => r.fail(Failure::new("c06:thread-fails", "compilation on another thread fails".to_owned())),
    }
    true
}

thread_local! {
    static DIR: RefCell<Option<Scratch>> = const { RefCell::new(None) };
}

pub fn check_processes(sources: &Sources, processes: usize, r: &mut CaseReport) -> bool {
    DIR.with(|d| {
        let mut d = d.borrow_mut();
        let dir = d.get_or_insert_with(|| Scratch::new("c06"));
        let _ = std::fs::remove_dir_all(&dir.path);
        std::fs::create_dir_all(&dir.path).ok();
        for (name, text) in &sources.files {
            dir.write(name, text);
        }
        let mut first: Option<Vec<u8>> = None;
        for k in 0..processes {
            let _ = std::fs::remove_file(dir.path.join("out.yaml"));
            let res = run_cli(&dir.path, &["-m", &sources.main, "-t", "out.yaml"]);
            r.evaluations += 1;
            if res.code != Some(0) {
                if k == 0 {
                    return false;
                }
                r.fail(Failure::new("c06:verdict-changes", format!("process #{} fails ({}) although process #1 succeeded", k + 1, res.status)));
                return true;
            }
            let bytes = std::fs::read(dir.path.join("out.yaml")).unwrap_or_default();
            match &first {
                None => first = Some(bytes),
                Some(f) => {
                    if *f != bytes {
                        r.fail(Failure::new(
                            "c06:fresh-process-differs",
                            format!("process #{} wrote a different target than process #1: {}", k + 1, first_difference(&String::from_utf8_lossy(f), &String::from_utf8_lossy(&bytes))),
                        ));
                        return true;
                    }
                }
            }
        }
        true
    })
}

fn gen_sources(tape: &mut Tape) -> (Sources, bool) {
    // Biased towards everything map-shaped: examples, many references, many rec instantiations, several modules.
    let cfg = GenCfg { max_decls: 14, max_resources: 4, ..GenCfg::full() };
    let (prog, labels) = Gen::new(tape, cfg).program();
    let mappy = labels.contains("at-reference") || labels.contains("rec") || labels.contains("application") || labels.contains("multi-module");
    let mut sources = to_sources(&render_plain(&prog));
    // One case in six: two more modules that are imported without a qualifier and declare the same
    // names with different values (the later `use` wins; which one that is may not depend on the
    // process).
    if tape.chance(1, 6) {
        let n = tape.range(2, 4);
        let prims = ["num", "str", "bool", "int", "uri"];
        let mut uses = String::new();
        for m in 0..n {
            let name = format!("zclash{m}.oal");
            let mut text = String::new();
            for w in 0..3 {
                text.push_str(&format!("let zw{w} = {} ;\n", prims[(m + w) % prims.len()]));
            }
            sources.files.insert(name.clone(), text);
            uses.push_str(&format!("use \"{name}\" ;\n"));
        }
        let main = sources.main.clone();
        let text = sources.files.get_mut(&main).unwrap();
        *text = format!("{uses}{text}res /zclash on get -> < {{ 'a zw0 , 'b zw1 , 'c zw2 }} > ;\n");
        return (sources, true);
    }
    (sources, mappy)
}

impl Property for C06 {
    fn id(&self) -> &'static str {
        "C06"
    }
    fn tape_len(&self) -> usize {
        3200
    }
    fn cases(&self, tier: Tier) -> u64 {
        let p = phases(tier);
        p.in_process + p.cli
    }
    fn rule(&self) -> String {
        "Cases: accepted generated programs (1-3 modules) rich in what passes through maps somewhere in the pipeline: examples with several \
         entries, many @references first evaluated as function arguments, rec instantiated under several applications, many properties, \
         parameters, responses and modules. Oracle: (a) the real oal-cli is run 8 (quick) / 24 (thorough) times as fresh processes on the same \
         files in the same directory: the targets must be byte-identical (every process has its own hash seeds); (b) in one worker the whole \
         pipeline (load, eval, build, YAML) is run 6-7 times on the same sources, interleaved with compilations of another program: \
         byte-identical; (c) once more on a freshly spawned thread: byte-identical. evaluations counts compilations. Non-trivial: the program \
         has a reference, a rec, an application or several modules. Distinct by source hash."
            .to_owned()
    }
    fn assumptions(&self) -> Vec<String> {
        vec![
            "hash seeds are sampled by starting processes, not enumerated".into(),
            "`regardless of time`: nothing in the pipeline reads the clock (checked by reading), so time is not varied".into(),
        ]
    }
    fn run_case(&self, tape: &mut Tape, ctx: &CaseCtx) -> CaseReport {
        let p = phases(ctx.tier);
        let (sources, mappy) = gen_sources(tape);
        let mut r = CaseReport::default();
        r.hash = sources.hash64();
        let accepted = if ctx.index < p.in_process {
            let (other, _) = gen_sources(tape);
            r.label("in-process");
            check_in_process(&sources, &other, p.repeats, &mut r)
        } else {
            r.label("fresh-processes");
            check_processes(&sources, p.processes, &mut r)
        };
        r.label(if accepted { "accepted" } else { "not-a-document" });
        r.nontrivial = accepted && mappy;
        if ctx.want_rendered || r.failure.is_some() {
            r.rendered = Some(json!({"sources": sources.to_json()}));
        }
        r
    }
    fn replay(&self, case: &Value) -> Option<Result<(), Failure>> {
        let sources: Sources = serde_json::from_value(case.get("sources")?.clone()).ok()?;
        let mut r = CaseReport::default();
        let other = Sources::single("let a = rec x { 'p [x] };\nlet f y = rec z { 'q y, 'r [z] };\nres / on get -> <f a>;\n");
        check_in_process(&sources, &other, 6, &mut r);
        if r.failure.is_none() {
            check_processes(&sources, 12, &mut r);
        }
        Some(match r.failure {
            Some(f) => Err(f),
            None => Ok(()),
        })
    }
}
