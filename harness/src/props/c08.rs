//! C08 — identifiers bind lexically (and evaluation honours the same binding, via C02's oracle).

use crate::engine::{catch, CaseCtx, CaseReport, Failure, Property, Tier};
use crate::gen::ast::*;
use crate::gen::typed::{Gen, GenCfg};
use crate::oal::*;
use crate::props::c02::check_program;
use crate::tape::Tape;
use oal_compiler::definition::Definition;
use oal_compiler::module::ModuleSet;
use oal_model::grammar::AbstractSyntaxNode;
use oal_syntax::parser::{Binding, Declaration, Variable};
use serde_json::{json, Value};
use std::collections::BTreeMap;

pub struct C08;

fn n_cases(tier: Tier) -> u64 {
    match tier {
        Tier::Quick => 200_000,
        Tier::Thorough => 3_000_000,
    }
}

/// Where a binder is bound, according to the generator: (file, byte span of the binding identifier).
fn binder_sites(rendered: &[Rendered]) -> BTreeMap<Bid, (String, (usize, usize))> {
    let mut m = BTreeMap::new();
    for r in rendered {
        for (t, sp) in r.toks.iter().zip(r.spans.iter()) {
            match &t.occ {
                Some(Occ::DeclName(b)) | Some(Occ::BindSite(b)) => {
                    m.insert(*b, (r.file.clone(), *sp));
                }
                _ => {}
            }
        }
    }
    m
}

/// Compares oal's resolution of every variable with the generator's binding table.
/// Returns the number of uses checked.
pub fn check_bindings(prog: &Program, rendered: &[Rendered], mods: &ModuleSet) -> Result<(u64, u64), Failure> {
    let sites = binder_sites(rendered);
    let mut checked = 0u64;
    let mut shadowed_uses = 0u64;
    let mut names: BTreeMap<&str, usize> = BTreeMap::new();
    for b in &prog.binders {
        *names.entry(b.name.as_str()).or_default() += 1;
    }
    for r in rendered {
        let tree = mods.get(&locator(&r.file)).ok_or_else(|| Failure::new("c08:module-missing", format!("module {} was not loaded", r.file)))?;
        // The uses the generator wrote, by span of the identifier.
        let mut expected: BTreeMap<(usize, usize), Option<Bid>> = BTreeMap::new();
        for (t, sp) in r.toks.iter().zip(r.spans.iter()) {
            if let Some(Occ::Use(b)) = &t.occ {
                expected.insert(*sp, *b);
            }
        }
        let mut found = 0usize;
        for node in tree.root().descendants() {
            let Some(var) = Variable::cast(node) else { continue };
            let ident = var.identifier().node().span().unwrap();
            let key = (ident.start(), ident.end());
            let Some(want) = expected.get(&key) else {
                return Err(Failure::new("c08:unknown-variable", format!("{}: oal sees a variable at {:?} that the generator did not write", r.file, key)));
            };
            found += 1;
            checked += 1;
            let core = var.node().syntax().core_ref();
            let defn = core.definition().ok_or_else(|| Failure::new("c08:unresolved", format!("{}: variable at {:?} has no definition after compile", r.file, key)))?;
            match (want, defn) {
                (None, Definition::Internal(_)) => {}
                (None, Definition::External(ext)) => {
                    let n = ext.node(mods);
                    return Err(Failure::new(
                        "c08:built-in-captured",
                        format!("{}: `{}` at {:?} should denote the built-in but resolves to {:?}", r.file, &r.text[key.0..key.1], key, n.span().map(|s| s.to_string())),
                    ));
                }
                (Some(b), Definition::Internal(_)) => {
                    return Err(Failure::new("c08:resolves-to-built-in", format!("{}: `{}` at {:?} should denote binder #{b} but resolves to a built-in", r.file, &r.text[key.0..key.1], key)));
                }
                (Some(b), Definition::External(ext)) => {
                    let target = ext.node(mods);
                    let got = if let Some(d) = Declaration::cast(target) {
                        d.identifier().node().span()
                    } else if Binding::cast(target).is_some() {
                        target.span()
                    } else {
                        return Err(Failure::new("c08:odd-definition", format!("{}: variable at {:?} resolves to a node that is neither a declaration nor a binding", r.file, key)));
                    };
                    let got = got.ok_or_else(|| Failure::new("c08:odd-definition", "definition without a span"))?;
                    let (wfile, wspan) = sites.get(b).ok_or_else(|| Failure::new("c08:harness", format!("no binding site for binder #{b}")))?;
                    let gfile = name_of(got.locator());
                    if gfile != *wfile || (got.start(), got.end()) != *wspan {
                        return Err(Failure::new(
                            "c08:wrong-binder",
                            format!(
                                "{}: `{}` at {:?} is bound by the {:?} `{}` at {}#{:?} but oal resolves it to {}#{}..{}",
                                r.file,
                                &r.text[key.0..key.1],
                                key,
                                prog.binders[*b].kind,
                                prog.binders[*b].name,
                                wfile,
                                wspan,
                                gfile,
                                got.start(),
                                got.end()
                            ),
                        ));
                    }
                    if names.get(prog.binders[*b].name.as_str()).copied().unwrap_or(0) >= 2 {
                        shadowed_uses += 1;
                    }
                }
            }
        }
        if found != expected.len() {
            return Err(Failure::new("c08:variable-missing", format!("{}: the generator wrote {} identifier uses, oal's tree has {} variables", r.file, expected.len(), found)));
        }
    }
    Ok((checked, shadowed_uses))
}

impl Property for C08 {
    fn id(&self) -> &'static str {
        "C08"
    }
    fn tape_len(&self) -> usize {
        1600
    }
    fn cases(&self, tier: Tier) -> u64 {
        n_cases(tier)
    }
    fn rule(&self) -> String {
        "Cases: programs (1-3 modules) from the kind-directed generator in shadowing mode: every name is drawn from a pool of 4 (3 in the \
         scope-stress variant), so parameters are named like declarations, rec binders like parameters, declarations like names imported \
         under a qualifier, the same module is imported under two qualifiers, uses precede definitions; 1 case in 5 has an injected unbound \
         use or duplicate declaration. Oracle: R-bind, the binding table the generator filled in when it chose each name (innermost rec, then \
         parameter, then declaration of the module regardless of order, then import by qualifier, then built-in): after load, every Variable \
         node's definition() is mapped to the span of its binding identifier and compared with the table, in both directions (no variable \
         missing, none invented); unbound => NotInScope, duplicate => InvalidIdentifier. The run-time half (the value is the one bound at that \
         binder) is decided by running the same program through C02's reference semantics, which never looks a name up. evaluations counts \
         identifier uses checked. Non-trivial: >= 1 use whose name is carried by >= 2 binders of the program. Distinct by source hash."
            .to_owned()
    }
    fn assumptions(&self) -> Vec<String> {
        vec![
            "a module declaration named like an unqualified import or like the built-in is not generated (the statement leaves that case open)".into(),
            "definition targets are identified by the span of the binding identifier (declaration name, parameter, rec binder)".into(),
        ]
    }
    fn run_case(&self, tape: &mut Tape, ctx: &CaseCtx) -> CaseReport {
        let stress = tape.chance(1, 3);
        let cfg = GenCfg { shadowing: true, scope_stress: stress, max_decls: 12, at_name_clash: tape.chance(1, 6), ..GenCfg::strict() };
        let (mut prog, _labels) = Gen::new(tape, cfg).program();
        let negative = if tape.chance(1, 5) { crate::props::c07::inject_scope_error(&mut prog, tape) } else { None };
        let rendered = if tape.chance(1, 3) { render_trivia(&prog, tape) } else { render_plain(&prog) };
        let sources = to_sources(&rendered);
        let mut r = CaseReport::default();
        r.hash = sources.hash64();
        match catch(|| load(&sources)) {
            Err(p) => r.fail(Failure::new(p.signature(), format!("load panicked at {}: {}", p.location, p.message))),
            Ok(loaded) => match (negative, loaded) {
                (Some("unbound-use"), Err(e)) if e.kind_name() == "NotInScope" => r.label("negative:unbound-use"),
                (Some("duplicate-declaration"), Err(e)) if e.kind_name() == "InvalidIdentifier" => r.label("negative:duplicate-declaration"),
                (Some(what), other) => {
                    let got = match &other {
                        Ok(_) => "accepted".to_owned(),
                        Err(e) => format!("rejected:{}", e.kind_name()),
                    };
                    r.fail(Failure::new(format!("c08:negative-case-not-reported:{what}"), format!("a program with an injected {what} is {got}")));
                }
                (None, Err(e)) => r.fail(Failure::new(
                    format!("c08:rejected:{}", e.kind_name()),
                    format!("a program that is well scoped by construction is rejected: {e:?}"),
                )),
                (None, Ok(mods)) => match check_bindings(&prog, &rendered, &mods) {
                    Err(f) => r.fail(f),
                    Ok((checked, shadowed)) => {
                        r.evaluations = checked.max(1);
                        r.count("uses_checked", checked);
                        r.count("uses_of_shared_names", shadowed);
                        r.nontrivial = shadowed >= 1;
                        r.label("positive");
                        // The run-time half: the value is the one bound at that binder.
                        let mut r2 = CaseReport::default();
                        let class = check_program(&prog, &sources, &mut r2);
                        r.label(format!("value-half:{class}"));
                        if let Some(f) = r2.failure {
                            r.fail(Failure::new(format!("{}(value-half)", f.signature), f.detail));
                        }
                    }
                },
            },
        }
        if prog.modules.len() > 1 {
            r.label("multi-module");
        }
        if stress {
            r.label("scope-stress");
        }
        if ctx.want_rendered || r.failure.is_some() {
            r.rendered = Some(json!({"negative": negative, "sources": sources.to_json()}));
        }
        r
    }
    fn replay(&self, _case: &Value) -> Option<Result<(), Failure>> {
        None
    }
}
