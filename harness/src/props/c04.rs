//! C04 — any text is answered with a result or diagnostics, never a crash.

use crate::engine::{catch, render_only_mode, CaseCtx, CaseReport, Failure, Property, Tier};
use crate::gen::text::*;
use crate::lspc::{run_cli, Lsp, LspError, Scratch};
use crate::tape::Tape;
use oal_compiler::tree::Core;
use serde_json::{json, Value};
use std::cell::RefCell;
use std::collections::BTreeMap;

pub struct C04;

struct Phases {
    tok_full: u64,
    tok_reduced: u64,
    text: u64,
    mutants: u64,
    nested: u64,
    cli: u64,
    lsp: u64,
    selfref: u64,
}

fn phases(tier: Tier) -> Phases {
    match tier {
        Tier::Quick => Phases {
            tok_full: seq_space(54, 3),
            tok_reduced: seq_space(20, 3),
            text: 300_000,
            mutants: 200_000,
            nested: (TEMPLATES * VARIANTS * 200) as u64,
            cli: 3_000,
            lsp: 6_000,
            selfref: selfref_space(),
        },
        Tier::Thorough => Phases {
            tok_full: seq_space(54, 3),
            tok_reduced: seq_space(20, 5),
            text: 1_500_000,
            mutants: 1_000_000,
            nested: (TEMPLATES * VARIANTS * 200) as u64,
            cli: 20_000,
            lsp: 40_000,
            selfref: selfref_space(),
        },
    }
}

#[derive(Clone, Copy, PartialEq, Eq, Debug)]
enum Door {
    InProcess,
    Cli,
    Lsp,
}

/// Generates the text of case `index`; returns (phase name, door, text).
/// Ways to wrap an expression `_` into a larger one.
const WRAPPERS: [(&str, &str); 16] = [
    ("'p ", ""),
    ("[ ", " ]"),
    ("{ 'q ", " }"),
    ("( ", " )"),
    ("", " | num"),
    ("", " & { }"),
    ("", " ~ num"),
    ("< ", " >"),
    ("/ on get -> ", ""),
    ("f ", ""),
    ("rec r ", ""),
    ("'p ! ", ""),
    ("{ 'q ", " , 'n num }"),
    ("/ { 'p ", " }"),
    ("< headers = ", " >"),
    ("g num ", ""),
];

fn selfref_space() -> u64 {
    // `let a = W1(W2(W3(a)))` for all wrapper sequences of length <= 3, and
    // `let a = W1(b); let b = W2(a)` for all pairs of sequences of length <= 1.
    // Each with two kinds of use: as a content, and as an operand that forces it to be a schema.
    2 * (seq_space(WRAPPERS.len() as u64, 3) + (1 + WRAPPERS.len() as u64) * (1 + WRAPPERS.len() as u64))
}

fn wrap(seq: &[usize], inner: &str) -> String {
    let mut s = inner.to_owned();
    for w in seq.iter().rev() {
        s = format!("{}{}{}", WRAPPERS[*w].0, s, WRAPPERS[*w].1);
    }
    s
}

/// A declaration that mentions itself (or two that mention each other) through every short
/// sequence of wrappers: what the occurs check, the cycle check and the evaluator must survive.
fn selfref_program(i: u64) -> String {
    let use_site = if i % 2 == 0 { "< a >" } else { "< a & { 'z str } >" };
    let i = i / 2;
    let n = WRAPPERS.len() as u64;
    let single = seq_space(n, 3);
    let prelude = "let f x = x ;\nlet g x y = y ;\n";
    if i < single {
        let seq = decode_seq(i, n, 3);
        format!("{prelude}let a = {} ;\nres / on get -> {use_site} ;\n", wrap(&seq, "a"))
    } else {
        let j = i - single;
        let (x, y) = (j / (n + 1), j % (n + 1));
        let sx: Vec<usize> = if x == 0 { vec![] } else { vec![(x - 1) as usize] };
        let sy: Vec<usize> = if y == 0 { vec![] } else { vec![(y - 1) as usize] };
        format!("{prelude}let a = {} ;\nlet b = {} ;\nres / on get -> {use_site} ;\n", wrap(&sx, "b"), wrap(&sy, "a"))
    }
}

fn generate(tape: &mut Tape, index: u64, tier: Tier) -> (&'static str, Door, String) {
    let p = phases(tier);
    let mut i = index;
    if i >= p.tok_full + p.tok_reduced + p.text + p.mutants + p.nested + p.cli + p.lsp {
        let k = i - (p.tok_full + p.tok_reduced + p.text + p.mutants + p.nested + p.cli + p.lsp);
        return ("self-reference", Door::InProcess, selfref_program(k));
    }
    if i < p.tok_full {
        let seq = decode_seq(i, 54, 3);
        let toks: Vec<String> = seq.iter().map(|k| TOKEN_KINDS[*k].1[0].to_owned()).collect();
        return ("tokens-54", Door::InProcess, join_tokens(&toks));
    }
    i -= p.tok_full;
    if i < p.tok_reduced {
        let max = if tier == Tier::Quick { 3 } else { 5 };
        let seq = decode_seq(i, 20, max);
        let toks: Vec<String> = seq.iter().map(|k| REDUCED_KINDS[*k].to_owned()).collect();
        return ("tokens-20", Door::InProcess, join_tokens(&toks));
    }
    i -= p.tok_reduced;
    if i < p.text {
        return ("text", Door::InProcess, gen_text(tape));
    }
    i -= p.text;
    if i < p.mutants {
        return ("mutant", Door::InProcess, gen_mutant(tape));
    }
    i -= p.mutants;
    if i < p.nested {
        // Ordered by depth, so that a blow-up is met at the smallest depth that shows it.
        let which = (i as usize) % TEMPLATES;
        let variant = ((i as usize) / TEMPLATES) % VARIANTS;
        let depth = (i as usize) / (TEMPLATES * VARIANTS) + 1;
        return ("nested", Door::InProcess, nested_template_variant(which, depth, variant));
    }
    i -= p.nested;
    let door = if i < p.cli { Door::Cli } else { Door::Lsp };
    // Through the binaries: a mix of all the text generators.
    let text = match tape.choose(4) {
        0 => gen_text(tape),
        1 | 2 => gen_mutant(tape),
        _ => {
            let which = tape.choose(TEMPLATES);
            let variant = tape.choose(VARIANTS);
            let depth = tape.range(1, 200);
            nested_template_variant(which, depth, variant)
        }
    };
    (if door == Door::Cli { "cli" } else { "lsp" }, door, text)
}

fn gen_mutant(tape: &mut Tape) -> String {
    let corpus = corpus();
    let base = if !corpus.is_empty() && tape.chance(2, 3) {
        tape.pick_ref(corpus).1.clone()
    } else {
        crate::gen::typed::quick_program_text(tape)
    };
    let toks = split_tokens(&base);
    join_tokens(&mutate_tokens(tape, toks))
}

thread_local! {
    static CLI_DIR: RefCell<Option<Scratch>> = const { RefCell::new(None) };
    static LSP_SERVER: RefCell<Option<(Scratch, Lsp)>> = const { RefCell::new(None) };
}

fn structural_labels(text: &str, r: &mut CaseReport) {
    // Structural preconditions used by the known findings (cheap predicates on the text).
    if text.contains("::") {
        r.label("has-range-operator");
    }
    if text.contains('|') || text.contains('&') {
        r.label("has-sum-or-join");
    }
    if text.contains("headers") {
        r.label("has-headers");
    }
    if text.contains("use") {
        r.label("has-import");
    }
    if text.contains("rec") || text.contains("let") {
        r.label("has-declaration");
    }
}

pub fn check_in_process(text: &str, r: &mut CaseReport) -> bool {
    // (a1) tokenizer + parser
    let loc = crate::oal::locator("main.oal");
    let parsed = catch(|| {
        let (tree, errs) = oal_syntax::parse::<_, Core>(loc.clone(), text);
        (tree.is_some(), errs.len())
    });
    let mut valid = false;
    match parsed {
        Err(p) => {
            structural_labels(text, r);
            r.fail(Failure::new(p.signature(), format!("oal_syntax::parse panicked at {}: {}", p.location, p.message)));
        }
        Ok((has_tree, nerr)) => {
            if !has_tree && nerr == 0 {
                r.fail(Failure::new("parse:no-tree-no-error", "parse returned neither a tree nor an error"));
            }
        }
    }
    // (a2) the playground entry point
    match catch(|| {
        let res = oal_wasm::compile(text);
        (res.api, res.error)
    }) {
        Err(p) => {
            structural_labels(text, r);
            r.fail(Failure::new(p.signature(), format!("oal_wasm::compile panicked at {}: {}", p.location, p.message)));
        }
        Ok((api, error)) => {
            if api.is_empty() == error.is_empty() {
                r.fail(Failure::new(
                    "wasm:neither-or-both",
                    format!("compile returned api.len={} error.len={}", api.len(), error.len()),
                ));
            }
            valid = !api.is_empty();
        }
    }
    valid
}

fn check_cli(text: &str, r: &mut CaseReport) {
    CLI_DIR.with(|d| {
        let mut d = d.borrow_mut();
        let dir = d.get_or_insert_with(|| Scratch::new("c04cli"));
        dir.write("main.oal", text);
        let _ = std::fs::remove_file(dir.path.join("out.yaml"));
        let res = run_cli(&dir.path, &["-m", "main.oal", "-t", "out.yaml"]);
        match res.code {
            Some(0) | Some(1) => {}
            _ => {
                structural_labels(text, r);
                let site = panic_site(&res.stderr);
                // A Rust panic keeps the signature format of the in-process door (same root causes).
                let sig = if site.contains(".rs:") { format!("panic:{site}") } else { format!("cli:{}:{}", res.status, site) };
                r.fail(Failure::new(
                    sig,
                    format!("oal-cli ended with {}; stderr tail: {}", res.status, tail(&res.stderr, 400)),
                ));
            }
        }
    });
}

/// Extracts "file:line:message head" from a Rust panic message on stderr.
pub fn panic_site(stderr: &str) -> String {
    if stderr.contains("has overflowed its stack") {
        return "stack-overflow".to_owned();
    }
    for (i, l) in stderr.lines().enumerate() {
        if let Some(p) = l.find("panicked at ") {
            let rest = &l[p + "panicked at ".len()..];
            let site = rest.trim_end_matches(':');
            let site = site.rsplit_once("/oal-").map(|(_, r)| format!("oal-{r}")).unwrap_or(site.to_owned());
            // drop the column
            // drop the column and the line
            let site = site.split(':').next().unwrap_or("").to_owned();
            let msg: String = stderr.lines().nth(i + 1).unwrap_or("").chars().take(60).collect();
            return format!("{site}:{msg}");
        }
    }
    "no-panic-message".to_owned()
}

fn tail(s: &str, n: usize) -> String {
    let cs: Vec<char> = s.chars().collect();
    cs[cs.len().saturating_sub(n)..].iter().collect()
}

/// `unsaved`: the document is first changed to that text, then closed without saving while the
/// file on disk holds `text`; the server must carry on with the file (a session every editor makes).
fn check_lsp(text: &str, unsaved: Option<&str>, r: &mut CaseReport) {
    LSP_SERVER.with(|cell| {
        let mut cell = cell.borrow_mut();
        if cell.is_none() {
            let dir = Scratch::new("c04lsp");
            dir.write("oal.toml", "[api]\nmain = \"main.oal\"\ntarget = \"out.yaml\"\n");
            dir.write("main.oal", "res / on get -> <>;\n");
            match Lsp::start(&dir.path) {
                Ok(mut lsp) => {
                    let uri = dir.uri("main.oal");
                    let _ = lsp.did_open(&uri, "res / on get -> <>;\n");
                    *cell = Some((dir, lsp));
                }
                Err(e) => {
                    r.fail(Failure::new("lsp:cannot-start", format!("{e:?}")));
                    return;
                }
            }
        }
        let (dir, lsp) = cell.as_mut().unwrap();
        let uri = dir.uri("main.oal");
        let res = match unsaved {
            None => lsp.did_change(&uri, &[(None, text.to_owned())]).and_then(|_| lsp.barrier(&uri)),
            Some(u) => {
                r.label("lsp-close-unsaved");
                lsp.did_change(&uri, &[(None, u.to_owned())]).and_then(|_| lsp.barrier(&uri)).and_then(|_| {
                    dir.write("main.oal", text);
                    lsp.did_close(&uri)?;
                    lsp.barrier(&uri)?;
                    lsp.did_open(&uri, text)?;
                    lsp.barrier(&uri)
                })
            }
        };
        match res {
            Ok(()) => {
                if !lsp.alive() {
                    r.fail(Failure::new("lsp:died-after-answer", "server exited after answering"));
                    *cell = None;
                }
            }
            Err(LspError::Died(status, stderr)) => {
                structural_labels(text, r);
                let site = panic_site(&stderr);
                let sig = if site.contains(".rs:") { format!("panic:{site}") } else { format!("lsp:{status}:{site}") };
                r.fail(Failure::new(
                    sig,
                    format!("oal-lsp died ({status}) on a full-text change{}; stderr tail: {}", if unsaved.is_some() { " / close without saving" } else { "" }, tail(&stderr, 400)),
                ));
                *cell = None;
            }
            Err(LspError::Timeout) => {
                r.label("lsp-timeout-inconclusive");
                *cell = None;
            }
            Err(LspError::Protocol(m)) => {
                r.fail(Failure::new("lsp:protocol", m));
                *cell = None;
            }
        }
    });
}

fn finish(text: &str, phase: &str, door: Door, ctx_want: bool, mut r: CaseReport, valid: Option<bool>) -> CaseReport {
    let ntok = split_tokens(text).len();
    r.hash = {
        use std::hash::{Hash, Hasher};
        let mut h = std::collections::hash_map::DefaultHasher::new();
        (text, door as u8 as u64).hash(&mut h);
        h.finish()
    };
    r.nontrivial = match valid {
        Some(true) => ntok >= 30,
        Some(false) => ntok >= 3,
        None => ntok >= 3,
    };
    r.label(format!("phase:{phase}"));
    if let Some(v) = valid {
        r.label(if v { "valid-program" } else { "invalid-program" });
    }
    if !text.is_ascii() {
        r.label("non-ascii");
    }
    if ctx_want || r.failure.is_some() {
        r.rendered = Some(json!({"door": format!("{door:?}"), "phase": phase, "text": text}));
    }
    r
}

impl Property for C04 {
    fn id(&self) -> &'static str {
        "C04"
    }
    fn tape_len(&self) -> usize {
        1200
    }
    fn cases(&self, tier: Tier) -> u64 {
        let p = phases(tier);
        p.tok_full + p.tok_reduced + p.text + p.mutants + p.nested + p.cli + p.lsp + p.selfref
    }
    fn rule(&self) -> String {
        "Cases: every sequence of <=3 tokens over all 54 token kinds and every sequence over a 20-kind reduced alphabet \
         (<=3 quick, <=5 thorough), each token by a representative spelling; G-text strings over a weighted alphabet \
         (keywords, punctuation, digit runs up to 40, 2/3/4-byte characters, NUL, line breaks, quotes, splices of corpus \
         tokens); token-level mutants (delete/duplicate/swap/replace/insert/move, 1-4 per case) of the repo corpus and of \
         generated programs; 8 nesting templates at every depth 1..200, each well formed and in 4 ill-formed variants (innermost expression missing, no closing brackets, wrong innermost closing bracket, half of the closing brackets missing). In-process door: oal_syntax::parse and \
         oal_wasm::compile must return (panics caught, aborts and CPU limit seen by the driver); compile must yield exactly \
         one of api/error. CLI door: real oal-cli must exit 0 or 1. LSP door: real oal-lsp must answer a request after a \
         full-text didChange and stay alive. Non-trivial: >=3 tokens (own splitter) and not a valid program, or a valid \
         program of >=30 tokens; distinct by hash of (text, door)."
            .to_owned()
    }
    fn assumptions(&self) -> Vec<String> {
        vec![
            "inputs are valid UTF-8 (the front ends take &str / UTF-8 files)".into(),
            "bracket nesting depth <= 200 as the property's quantifier says".into(),
            "a wall-clock timeout of the language server is reported as inconclusive, never as a violation".into(),
            "panics with the signature of a recorded known finding of C01 (same root cause, reached through the front ends) are counted as excluded_known".into(),
        ]
    }
    fn exhaustive(&self, tier: Tier) -> Option<String> {
        Some(match tier {
            Tier::Quick => "all token-kind sequences of length <=3 over 54 kinds (160435) and over the 20-kind reduced alphabet (8421), one spelling per kind; all 8 nesting templates x 5 variants x depth 1..200",
            Tier::Thorough => "all token-kind sequences of length <=3 over 54 kinds (160435) and length <=5 over the 20-kind reduced alphabet (3368421), one spelling per kind; all 8 nesting templates x 5 variants x depth 1..200",
        }.to_owned())
    }
    fn run_case(&self, tape: &mut Tape, ctx: &CaseCtx) -> CaseReport {
        let (phase, door, text) = generate(tape, ctx.index, ctx.tier);
        let mut r = CaseReport::default();
        if render_only_mode() {
            r.rendered = Some(json!({"door": format!("{door:?}"), "phase": phase, "text": text}));
            return r;
        }
        let valid = match door {
            Door::InProcess => Some(check_in_process(&text, &mut r)),
            Door::Cli => {
                check_cli(&text, &mut r);
                None
            }
            Door::Lsp => {
                let unsaved = if tape.chance(1, 3) { Some(gen_mutant(tape)) } else { None };
                check_lsp(&text, unsaved.as_deref(), &mut r);
                let mut out = finish(&text, phase, door, ctx.want_rendered, r, None);
                if let (Some(u), Some(v)) = (unsaved, out.rendered.as_mut()) {
                    v["unsaved"] = json!(u);
                }
                return out;
            }
        };
        finish(&text, phase, door, ctx.want_rendered, r, valid)
    }
    fn replay(&self, case: &Value) -> Option<Result<(), Failure>> {
        let text = match case.get("text").and_then(|t| t.as_str()) {
            Some(t) => t,
            // A finding stored as a source set: only single-module sets are texts.
            None => {
                let files = case.get("sources")?.get("files")?.as_object()?;
                if files.len() != 1 {
                    return None;
                }
                files.values().next()?.as_str()?
            }
        };
        let mut r = CaseReport::default();
        match case.get("door").and_then(|d| d.as_str()) {
            Some("Cli") => check_cli(text, &mut r),
            Some("Lsp") => check_lsp(text, case.get("unsaved").and_then(|u| u.as_str()), &mut r),
            _ => {
                check_in_process(text, &mut r);
                // In replay the saved text goes through every door.
                if r.failure.is_none() {
                    check_cli(text, &mut r);
                }
                if r.failure.is_none() {
                    check_lsp(text, None, &mut r);
                }
            }
        }
        Some(match r.failure {
            Some(f) => Err(f),
            None => Ok(()),
        })
    }
    fn cpu_limit_s(&self) -> u64 {
        // Normal cost is below 10 ms per text.
        10
    }
    fn prelude(&self, _tier: Tier) -> Result<BTreeMap<String, Value>, Failure> {
        let mut m = BTreeMap::new();
        m.insert("corpus_files".to_owned(), json!(corpus().len()));
        Ok(m)
    }
}
