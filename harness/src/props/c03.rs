//! C03 — every emitted document is a closed, structurally valid OpenAPI 3 description.

use crate::engine::{catch, CaseCtx, CaseReport, Failure, Property, Tier};
use crate::gen::base::{gen_base, to_yaml};
use crate::oal::*;
use crate::tape::Tape;
use crate::validate::validate;
use serde_json::{json, Value};

pub struct C03;

fn n_cases(tier: Tier) -> u64 {
    match tier {
        Tier::Quick => 350_000,
        Tier::Thorough => 5_000_000,
    }
}

pub fn check_document(sources: &Sources, base_yaml: Option<&str>, r: &mut CaseReport) -> &'static str {
    let base = match base_yaml {
        Some(y) => match serde_yaml::from_str::<openapiv3::OpenAPI>(y) {
            Ok(b) => Some(b),
            Err(e) => {
                r.fail(Failure::new("c03:harness-base", format!("the generated base does not deserialize: {e}")));
                return "harness";
            }
        },
        None => None,
    };
    let out = match catch(|| pipeline(sources, base)) {
        Ok(o) => o,
        Err(_) => return "pipeline-panic", // C01's business
    };
    let Outcome::Document { yaml, api } = out else { return "no-document" };
    let generic = match yaml_to_json(&yaml) {
        Ok(g) => g,
        Err(e) => {
            r.fail(Failure::new("c03:yaml-unreadable", format!("the emitted YAML does not parse back: {e}")));
            return "document";
        }
    };
    match validate(&generic) {
        Err((sig, detail)) => r.fail(Failure::new(sig, detail)),
        Ok(f) => {
            r.nontrivial = f.refs >= 1 || f.path_variables >= 1 || f.operations >= 2;
            if f.explicit_id_duplicate {
                // A duplicate that the synthesis rule does not explain must involve an id somebody
                // wrote (in the sources or in the base): otherwise the tool invented the collision.
                let written = |id: &str| sources.files.values().any(|t| t.contains(id)) || base_yaml.map_or(false, |b| b.contains(id));
                match f.other_duplicates.iter().find(|(id, _)| !written(id)) {
                    Some((id, uses)) => r.fail(Failure::new(
                        "c03:unexplained-operation-id-collision",
                        format!("operationId {id:?} is used by {uses}; it is written neither in the sources nor in the base, and it is not what the documented synthesis (method and lower-cased segments, `root` for an empty one) gives for each of them"),
                    )),
                    None => r.label("explicit-operation-id-duplicate(out-of-domain)"),
                }
            }
            r.count("refs_resolved", f.refs as u64);
            r.count("path_variables", f.path_variables as u64);
            r.count("operations", f.operations as u64);
        }
    }
    // (5) the YAML text parses back to the same document.
    match serde_yaml::from_str::<openapiv3::OpenAPI>(&yaml) {
        Err(e) => r.fail(Failure::new("c03:round-trip-parse", format!("the emitted YAML is not an OpenAPI document: {e}"))),
        Ok(back) => {
            let a = serde_json::to_value(&api).unwrap();
            let b = serde_json::to_value(&back).unwrap();
            if a != b {
                r.fail(Failure::new("c03:round-trip-differs", "the YAML text parses back to a different document".to_owned()));
            }
        }
    }
    "document"
}

impl Property for C03 {
    fn id(&self) -> &'static str {
        "C03"
    }
    fn tape_len(&self) -> usize {
        1700
    }
    fn cases(&self, tier: Tier) -> u64 {
        n_cases(tier)
    }
    fn rule(&self) -> String {
        "Cases: everything the C01 generators produce that load+compile accepts and that evaluates to a document (typed, loose, shadowing \
         and mutant programs, 1-3 modules, out-of-range statuses through literals and function parameters), one case in three combined with a \
         generated base document (info, servers with variables, security, tags, externalDocs, every non-schema component map, own paths and \
         schemas, extensions) whose retained parts reference nothing under components.schemas. Oracle R-val over the emitted YAML re-parsed \
         into a generic value: (1) every string under a $ref key resolves by JSON pointer inside the document; (2) per path key the multiset \
         of {variables} equals the multiset of `in: path` parameters (path item plus operation), each required: true; (3) response keys are \
         default, 100-599 or 1XX-5XX; (4) operationIds pairwise distinct (a collision between two synthesised ids is the known finding F10; a \
         collision involving a user-written id is outside the domain and counted); (5) the YAML text parses back into the same OpenAPI value. \
         Non-trivial: a document with >= 1 $ref or >= 1 path variable or >= 2 operations. Distinct by hash of sources and base."
            .to_owned()
    }
    fn assumptions(&self) -> Vec<String> {
        vec![
            "`default` is a legal Responses key (what a status-less content maps to); it is not a status code".into(),
            "path variables are pairwise distinct inside a path as the property's quantifier says; documents violating that are reported by check (2) only if oal itself merges them".into(),
            "bases whose retained parts point into their own components.schemas are not generated (dangling after the merge that C14 requires)".into(),
        ]
    }
    fn run_case(&self, tape: &mut Tape, ctx: &CaseCtx) -> CaseReport {
        let (gen_name, sources) = crate::props::c01::generate(tape, ctx.index + 100_000, ctx.tier);
        let base = if tape.chance(1, 3) { Some(to_yaml(&gen_base(tape).0)) } else { None };
        let mut r = CaseReport::default();
        r.hash = {
            use std::hash::{Hash, Hasher};
            let mut h = std::collections::hash_map::DefaultHasher::new();
            sources.hash(&mut h);
            base.hash(&mut h);
            h.finish()
        };
        let class = check_document(&sources, base.as_deref(), &mut r);
        r.label(format!("gen:{gen_name}"));
        r.label(format!("class:{class}"));
        if base.is_some() {
            r.label("with-base");
        }
        if class != "document" {
            r.nontrivial = false;
        }
        if ctx.want_rendered || r.failure.is_some() {
            r.rendered = Some(json!({"generator": gen_name, "sources": sources.to_json(), "base": base}));
        }
        r
    }
    fn minimize(&self, case: &Value, signature: &str) -> Option<Value> {
        let sources: Sources = serde_json::from_value(case.get("sources")?.clone()).ok()?;
        let base = case.get("base").and_then(|b| b.as_str()).map(|s| s.to_owned());
        let small = crate::minimize::minimize_sources(
            &sources,
            |s| {
                let mut r = CaseReport::default();
                check_document(s, base.as_deref(), &mut r);
                r.failure.map_or(false, |f| f.signature == signature)
            },
            500,
        );
        let mut out = case.clone();
        out["sources"] = small.to_json();
        Some(out)
    }
    fn replay(&self, case: &Value) -> Option<Result<(), Failure>> {
        let sources: Sources = serde_json::from_value(case.get("sources")?.clone()).ok()?;
        let base = case.get("base").and_then(|b| b.as_str());
        let mut r = CaseReport::default();
        check_document(&sources, base, &mut r);
        Some(match r.failure {
            Some(f) => Err(f),
            None => Ok(()),
        })
    }
}
