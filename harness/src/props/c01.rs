//! C01 — accepted programs never go wrong.

use crate::engine::{catch, render_only_mode, CaseCtx, CaseReport, Failure, Property, Tier};
use crate::gen::ast::{render_plain, to_sources};
use crate::gen::text::{corpus, join_tokens, mutate_tokens, nested_template, split_tokens, TEMPLATES};
use crate::gen::typed::{Gen, GenCfg};
use crate::oal::*;
use crate::tape::Tape;
use serde_json::{json, Value};

pub struct C01;

fn n_cases(tier: Tier) -> u64 {
    match tier {
        Tier::Quick => 400_000,
        Tier::Thorough => 5_000_000,
    }
}

pub fn loose_cfg(t: &mut Tape) -> GenCfg {
    let mut c = GenCfg::full();
    match t.choose(5) {
        0 => c.loose_ranges_as_content = true,
        1 => c.loose_op_as_plain = true,
        2 => c.loose_rec_as_plain = true,
        3 => c.loose_cross_module_poly = true,
        _ => {
            c.loose_ranges_as_content = true;
            c.loose_op_as_plain = true;
            c.loose_rec_as_plain = true;
            c.loose_cross_module_poly = true;
        }
    }
    c
}

/// Generates the source set of case `index`; returns (generator name, sources).
pub fn generate(tape: &mut Tape, index: u64, tier: Tier) -> (&'static str, Sources) {
    let nested = (TEMPLATES * 200) as u64;
    if index < nested {
        let which = (index as usize) % TEMPLATES;
        let depth = (index as usize) / TEMPLATES + 1;
        return ("nested", Sources::single(&nested_template(which, depth)));
    }
    let _ = tier;
    match tape.weighted(&[35, 12, 30, 13, 10]) {
        0 => {
            let (p, _) = Gen::new(tape, GenCfg::full()).program();
            ("typed", to_sources(&render_plain(&p)))
        }
        1 => {
            let cfg = loose_cfg(tape);
            let (p, _) = Gen::new(tape, cfg).program();
            ("loose", to_sources(&render_plain(&p)))
        }
        2 => {
            // A token-level mutant of one module of a generated program.
            let (p, _) = Gen::new(tape, GenCfg::full()).program();
            let mut s = to_sources(&render_plain(&p));
            let names: Vec<String> = s.files.keys().cloned().collect();
            let name = tape.pick_ref(&names).clone();
            let toks = split_tokens(&s.files[&name]);
            s.files.insert(name, join_tokens(&mutate_tokens(tape, toks)));
            ("typed-mutant", s)
        }
        3 => {
            let c = corpus();
            if c.is_empty() {
                return ("corpus-mutant", Sources::single(""));
            }
            let text = &tape.pick_ref(c).1;
            let toks = split_tokens(text);
            ("corpus-mutant", Sources::single(&join_tokens(&mutate_tokens(tape, toks))))
        }
        _ => {
            // Half of them also let cyclic declarations into the slots that want a plain URI / object /
            // relation (an ill-formed cycle the checker must reject, not the back end crash on).
            let plain = tape.chance(1, 2);
            let cfg = GenCfg { shadowing: true, invalid_cycles: true, loose_head_cycles: true, loose_rec_as_plain: plain, max_decls: 14, ..GenCfg::full() };
            let (p, _) = Gen::new(tape, cfg).program();
            ("shadow-cycles", to_sources(&render_plain(&p)))
        }
    }
}

/// The oracle: on an accepted source set the back end must finish normally.
pub fn check_sources(sources: &Sources, r: &mut CaseReport) -> &'static str {
    let loaded = match catch(|| load(sources)) {
        Ok(l) => l,
        Err(p) => {
            // A crash of the front end is C04's business, but it is a crash all the same.
            r.label("front-end-panic");
            r.fail(Failure::new(p.signature(), format!("load/compile panicked at {}: {}", p.location, p.message)));
            return "front-end-panic";
        }
    };
    let mods = match loaded {
        Ok(m) => m,
        Err(_) => return "rejected",
    };
    let labels = structural_labels(&mods);
    for l in &labels {
        r.label(l.clone());
    }
    match catch(|| match back_end(&mods, None) {
        BackEnd::Document(api) => {
            let yaml = serde_yaml::to_string(&api).map_err(|e| e.to_string());
            (None, Some(yaml))
        }
        BackEnd::EvalError(e) => (Some(e), None),
    }) {
        Err(p) => {
            r.fail(Failure::new(p.signature(), format!("the back end panicked on an accepted program at {}: {}", p.location, p.message)));
            "back-end-panic"
        }
        Ok((Some(e), _)) => {
            // A located error value is a normal outcome; its span must be exact.
            if let Some(sp) = e.span() {
                if let Err(why) = span_ok(sources, sp) {
                    r.fail(Failure::new("eval-error:bad-span", why));
                }
            }
            "eval-error"
        }
        Ok((None, Some(Ok(_)))) => "document",
        Ok((None, Some(Err(e)))) => {
            r.fail(Failure::new("yaml:serialize", e));
            "document"
        }
        Ok((None, None)) => unreachable!(),
    }
}

impl Property for C01 {
    fn id(&self) -> &'static str {
        "C01"
    }
    fn tape_len(&self) -> usize {
        1500
    }
    fn cases(&self, tier: Tier) -> u64 {
        n_cases(tier)
    }
    fn rule(&self) -> String {
        "Cases: module sets (1-3 modules) from the kind-directed generator G-typed (full language: all schema forms, operators, \
         contents, transfers, URI templates, concat, relations, functions incl. higher arity, rec, @references, qualified and \
         unqualified imports, annotations, out-of-range statuses), G-loose (the same with one or all kind confusions that the \
         checker's coarse tags let through), token-level mutants of generated programs and of the repo corpus, a shadowing+cycles \
         mode, and 8 nesting templates at every depth 1..200. Only source sets that module::load + compile::compile accept are \
         in the domain (rejection sampling; the acceptance rate per generator is in the histogram). Oracle: eval + \
         Builder::into_openapi + YAML serialisation return a document or a located error; panics are caught, aborts / stack \
         overflow / CPU limit are seen by the driver. Non-trivial: accepted and (>=2 modules, or an application, or a recursion, \
         or a `::`/`|`/`&`/`~` operator, or an accepted mutant). Distinct by hash of the source set."
            .to_owned()
    }
    fn assumptions(&self) -> Vec<String> {
        vec![
            "nesting depth of generated programs is bounded (<= 200 on templates, <= ~12 in generated programs)".into(),
            "modules are loaded through an in-memory Loader that wraps the real oal_syntax::parse and compile::compile".into(),
            "a failure whose signature and structural precondition match an open entry of known_findings.json is counted as excluded_known, not as a violation".into(),
        ]
    }
    fn run_case(&self, tape: &mut Tape, ctx: &CaseCtx) -> CaseReport {
        let (gen_name, sources) = generate(tape, ctx.index, ctx.tier);
        let mut r = CaseReport::default();
        r.hash = sources.hash64();
        if render_only_mode() {
            r.rendered = Some(json!({"generator": gen_name, "sources": sources.to_json()}));
            return r;
        }
        let verdict = check_sources(&sources, &mut r);
        r.label(format!("gen:{gen_name}"));
        r.label(format!("{gen_name}:{verdict}"));
        let accepted = matches!(verdict, "document" | "eval-error" | "back-end-panic");
        r.nontrivial = accepted
            && (gen_name.ends_with("mutant")
                || ["multi-module", "application", "has-recursion", "range-op", "sum-or-join-op", "any-op"].iter().any(|l| r.has_label(l)));
        if ctx.want_rendered || r.failure.is_some() {
            r.rendered = Some(json!({"generator": gen_name, "verdict": verdict, "sources": sources.to_json()}));
        }
        r
    }
    fn minimize(&self, case: &Value, signature: &str) -> Option<Value> {
        let sources: Sources = serde_json::from_value(case.get("sources")?.clone()).ok()?;
        let small = crate::minimize::minimize_sources(
            &sources,
            |s| {
                let mut r = CaseReport::default();
                check_sources(s, &mut r);
                r.failure.map_or(false, |f| f.signature == signature)
            },
            600,
        );
        let mut out = case.clone();
        out["sources"] = small.to_json();
        Some(out)
    }
    fn replay(&self, case: &Value) -> Option<Result<(), Failure>> {
        let sources: Sources = serde_json::from_value(case.get("sources")?.clone()).ok()?;
        let mut r = CaseReport::default();
        check_sources(&sources, &mut r);
        Some(match r.failure {
            Some(f) => Err(f),
            None => Ok(()),
        })
    }
}
