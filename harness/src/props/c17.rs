//! C17 — go-to-definition and find-references mirror the compiler's binding relation.

use crate::engine::{CaseCtx, CaseReport, Failure, Property, Tier};
use crate::gen::ast::*;
use crate::gen::typed::{Gen, GenCfg};
use crate::lspc::{Lsp, LspError};
use crate::lspcheck::*;
use crate::oal::*;
use crate::tape::Tape;
use serde_json::{json, Value};
use std::collections::{BTreeMap, BTreeSet};

pub struct C17;

fn n_cases(tier: Tier) -> u64 {
    match tier {
        Tier::Quick => 7_000,
        Tier::Thorough => 40_000,
    }
}

/// What the generator knows about every identifier token of every module.
pub struct Table {
    /// binder -> (file, span of the construct go-to-definition must land on)
    pub def_site: BTreeMap<Bid, (String, (usize, usize))>,
    /// binder -> (file, span of the binding identifier)
    pub ident_site: BTreeMap<Bid, (String, (usize, usize))>,
    /// binder -> all uses (file, span of the identifier)
    pub uses: BTreeMap<Bid, BTreeSet<(String, (usize, usize))>>,
}

pub fn table(prog: &Program, rendered: &[Rendered]) -> Table {
    let mut t = Table { def_site: BTreeMap::new(), ident_site: BTreeMap::new(), uses: BTreeMap::new() };
    for r in rendered {
        let mut stmt_first = 0usize;
        for (i, tok) in r.toks.iter().enumerate() {
            if tok.stmt_start.is_some() {
                stmt_first = i;
            }
            match &tok.occ {
                Some(Occ::DeclName(b)) => {
                    // The whole statement, from its first token (annotations included) to the `;`.
                    let mut last = i;
                    while !r.toks[last].stmt_end {
                        last += 1;
                    }
                    t.def_site.insert(*b, (r.file.clone(), (r.spans[stmt_first].0, r.spans[last].1)));
                    t.ident_site.insert(*b, (r.file.clone(), r.spans[i]));
                }
                Some(Occ::BindSite(b)) => {
                    t.def_site.insert(*b, (r.file.clone(), r.spans[i]));
                    t.ident_site.insert(*b, (r.file.clone(), r.spans[i]));
                }
                Some(Occ::Use(Some(b))) => {
                    t.uses.entry(*b).or_default().insert((r.file.clone(), r.spans[i]));
                }
                _ => {}
            }
        }
    }
    let _ = prog;
    t
}

/// The first token of a declaration statement: a line annotation token ends with its newline(s),
/// which oal's lexer may extend over following blank lines; the statement span starts at its `#`.
fn lsp_err(e: LspError, what: &str) -> Failure {
    match e {
        LspError::Died(st, err) => Failure::new(format!("lsp:died:{st}"), format!("oal-lsp died during {what}: {err}")),
        LspError::Timeout => Failure::new("lsp:timeout", format!("no answer to {what}")),
        LspError::Protocol(m) => Failure::new("lsp:protocol", m),
    }
}

struct Probe<'a> {
    ws: &'a Workspace,
    lsp: &'a mut Lsp,
    texts: BTreeMap<String, String>,
}

impl Probe<'_> {
    fn definition(&mut self, file: &str, offset: usize) -> Result<Vec<(String, (usize, usize))>, Failure> {
        let pos = pos_of(&self.texts[file], offset);
        let v = self.lsp.position_request("textDocument/definition", &self.ws.uri(file), pos, json!({})).map_err(|e| lsp_err(e, "definition"))?;
        self.to_spans(definition_locations(&v), "definition")
    }
    fn references(&mut self, file: &str, offset: usize) -> Result<Vec<(String, (usize, usize))>, Failure> {
        let pos = pos_of(&self.texts[file], offset);
        let v = self
            .lsp
            .position_request("textDocument/references", &self.ws.uri(file), pos, json!({"context": {"includeDeclaration": false}}))
            .map_err(|e| lsp_err(e, "references"))?;
        self.to_spans(reference_locations(&v), "references")
    }
    fn to_spans(&self, locs: Vec<(String, Rng)>, what: &str) -> Result<Vec<(String, (usize, usize))>, Failure> {
        let mut out = Vec::new();
        for (uri, rng) in locs {
            let file = self.ws.file_of_uri(&uri).ok_or_else(|| Failure::new("c17:foreign-uri", format!("{what} returned a location outside the folder: {uri}")))?;
            let text = self.texts.get(&file).ok_or_else(|| Failure::new("c17:foreign-uri", format!("{what} returned a location in an unknown file: {uri}")))?;
            let a = offset_of(text, rng.0);
            let b = offset_of(text, rng.1);
            match (a, b) {
                (Some(a), Some(b)) => out.push((file, (a, b))),
                _ => return Err(Failure::new("c17:range-in-surrogate", format!("{what} returned a range inside a surrogate pair: {rng:?}"))),
            }
        }
        Ok(out)
    }
}

/// `visit`: a module (file, other text of the same module) that the editor opens with that
/// other text, lets the server evaluate, and closes without saving before the questions are asked:
/// the program is the one on disk again.
pub fn check_program(prog: &Program, rendered: &[Rendered], visit: Option<(&str, &str)>, tape: &mut Tape, dense: bool, r: &mut CaseReport) {
    let tb = table(prog, rendered);
    let ws = Workspace::from_rendered("c17", rendered);
    let mut lsp = match ws.start() {
        Ok(l) => l,
        Err(e) => {
            r.fail(lsp_err(e, "start"));
            return;
        }
    };
    if let Some((file, other)) = visit {
        let uri = ws.uri(file);
        let main = ws.uri(&rendered[0].file);
        let disk = rendered.iter().find(|x| x.file == file).map(|x| x.text.clone()).unwrap_or_default();
        let res = lsp.did_open(&uri, other).and_then(|_| lsp.barrier(&main)).and_then(|_| {
            if tape.chance(1, 2) {
                r.label("visited-unsaved-variant:closed");
                lsp.did_close(&uri)
            } else {
                // Back to the text on disk by one didChange with two ranged changes in document order.
                r.label("visited-unsaved-variant:changed-back-in-two-edits");
                let edits = crate::lspcheck::two_edits(other, &disk, (tape.raw(), tape.raw()));
                let changes: Vec<(Option<((u32, u32), (u32, u32))>, String)> = edits.into_iter().map(|(rg, t)| (Some(rg), t)).collect();
                lsp.did_change(&uri, &changes)
            }
        });
        if let Err(e) = res {
            r.fail(lsp_err(e, "open / close of an unsaved variant"));
            return;
        }
        r.label("visited-unsaved-variant");
    }
    let texts: BTreeMap<String, String> = rendered.iter().map(|x| (x.file.clone(), x.text.clone())).collect();
    let mut probe = Probe { ws: &ws, lsp: &mut lsp, texts };
    let mut checked = 0u64;
    for rd in rendered {
        // Classify every byte offset of the module.
        let mut class: Vec<Option<&Tok>> = vec![None; rd.text.len() + 1];
        let mut in_qualified: Vec<bool> = vec![false; rd.text.len() + 1];
        for (i, (tok, sp)) in rd.toks.iter().zip(rd.spans.iter()).enumerate() {
            for o in sp.0..sp.1 {
                class[o] = Some(tok);
            }
            // `q . x`: everything from the start of q to the end of x lies inside the variable node.
            if matches!(tok.occ, Some(Occ::QualUse(_))) {
                let end = rd.spans[i + 2].1;
                for o in sp.0..end {
                    in_qualified[o] = true;
                }
            }
        }
        let mut offsets: BTreeSet<usize> = BTreeSet::new();
        for sp in &rd.spans {
            offsets.insert(sp.0);
            offsets.insert((sp.0 + sp.1) / 2);
            offsets.insert(sp.1.saturating_sub(1).max(sp.0));
            offsets.insert(sp.1);
        }
        for o in 0..=rd.text.len() {
            if dense || tape.chance(1, 4) {
                offsets.insert(o);
            }
        }
        for o in offsets {
            if !rd.text.is_char_boundary(o) || (o > 0 && o < rd.text.len() && rd.text.as_bytes()[o - 1] == b'\r' && rd.text.as_bytes()[o] == b'\n') {
                continue;
            }
            let tok = class.get(o).copied().flatten();
            let occ = tok.and_then(|t| t.occ.clone());
            checked += 1;
            let here = || format!("{}@{} ({:?})", rd.file, o, tok.map(|t| t.text.as_str()).unwrap_or("<between tokens>"));
            match occ {
                Some(Occ::Use(_)) | Some(Occ::QualUse(_)) => {
                    // Which binder? For the qualifier part of `q.x` it is x's binder.
                    let binder: Option<Bid> = match &occ {
                        Some(Occ::Use(b)) => *b,
                        _ => {
                            // find the Use token that follows `q .`
                            let i = rd.spans.iter().position(|sp| sp.0 <= o && o < sp.1).unwrap();
                            match &rd.toks[i + 2].occ {
                                Some(Occ::Use(b)) => *b,
                                _ => None,
                            }
                        }
                    };
                    let defs = match probe.definition(&rd.file, o) {
                        Ok(d) => d,
                        Err(f) => {
                            r.fail(f);
                            return;
                        }
                    };
                    let refs = match probe.references(&rd.file, o) {
                        Ok(d) => d,
                        Err(f) => {
                            r.fail(f);
                            return;
                        }
                    };
                    match binder {
                        None => {
                            // A use of the built-in: no definition to go to.
                            if !defs.is_empty() {
                                r.fail(Failure::new("c17:definition-of-built-in", format!("{}: go-to-definition on a built-in returns {defs:?}", here())));
                                return;
                            }
                        }
                        Some(b) => {
                            let want = tb.def_site.get(&b).cloned();
                            if defs.len() != 1 || Some(&defs[0]) != want.as_ref() {
                                r.fail(Failure::new(
                                    "c17:definition",
                                    format!("{}: go-to-definition returns {defs:?}, the binder `{}` is at {want:?}", here(), prog.binders[b].name),
                                ));
                                return;
                            }
                            let want_refs: BTreeSet<(String, (usize, usize))> = tb.uses.get(&b).cloned().unwrap_or_default();
                            let got_refs: BTreeSet<(String, (usize, usize))> = refs.iter().cloned().collect();
                            if got_refs != want_refs || refs.len() != got_refs.len() {
                                r.fail(Failure::new(
                                    "c17:references-from-use",
                                    format!("{}: find-references returns {refs:?}, the uses of `{}` are {want_refs:?}", here(), prog.binders[b].name),
                                ));
                                return;
                            }
                        }
                    }
                }
                Some(Occ::DeclName(b)) => {
                    let refs = match probe.references(&rd.file, o) {
                        Ok(d) => d,
                        Err(f) => {
                            r.fail(f);
                            return;
                        }
                    };
                    let want_refs: BTreeSet<(String, (usize, usize))> = tb.uses.get(&b).cloned().unwrap_or_default();
                    let got_refs: BTreeSet<(String, (usize, usize))> = refs.iter().cloned().collect();
                    if got_refs != want_refs || refs.len() != got_refs.len() {
                        r.fail(Failure::new(
                            "c17:references-from-declaration",
                            format!("{}: find-references returns {refs:?}, the uses of `{}` are {want_refs:?}", here(), prog.binders[b].name),
                        ));
                        return;
                    }
                    if want_refs.iter().any(|(f, _)| *f != rd.file) {
                        r.label("references-across-modules");
                    }
                }
                Some(Occ::BindSite(b)) => {
                    // The binding identifier of a parameter or rec binder. Whether the server
                    // answers here at all is left open by the statement, but whatever it returns
                    // must lead back to this binder ("every reference returned goes back to that
                    // declaration"): a subset of the uses bound to it.
                    let refs = match probe.references(&rd.file, o) {
                        Ok(d) => d,
                        Err(f) => {
                            r.fail(f);
                            return;
                        }
                    };
                    let want_refs: BTreeSet<(String, (usize, usize))> = tb.uses.get(&b).cloned().unwrap_or_default();
                    if let Some(stray) = refs.iter().find(|x| !want_refs.contains(*x)) {
                        r.fail(Failure::new(
                            "c17:references-from-binding-site",
                            format!("{}: find-references on the binding identifier of `{}` returns {stray:?}, which is not one of its uses {want_refs:?}", here(), prog.binders[b].name),
                        ));
                        return;
                    }
                }
                Some(Occ::QualDef(_)) => {
                    // The qualifier of a `use ... as q` statement: the statement is silent.
                }
                _ => {
                    if in_qualified.get(o).copied().unwrap_or(false) {
                        // The `.` of a qualified name (and blanks around it) lies inside the variable node.
                        continue;
                    }
                    let defs = match probe.definition(&rd.file, o) {
                        Ok(d) => d,
                        Err(f) => {
                            r.fail(f);
                            return;
                        }
                    };
                    let refs = match probe.references(&rd.file, o) {
                        Ok(d) => d,
                        Err(f) => {
                            r.fail(f);
                            return;
                        }
                    };
                    if !defs.is_empty() || !refs.is_empty() {
                        r.fail(Failure::new(
                            "c17:answer-at-non-identifier",
                            format!("{}: not an identifier, but definition = {defs:?}, references = {refs:?}", here()),
                        ));
                        return;
                    }
                }
            }
        }
    }
    if !probe.lsp.alive() {
        r.fail(Failure::new("lsp:died:after", "the server exited".to_owned()));
    }
    r.evaluations = checked.max(1);
    r.count("positions_checked", checked);
}

pub fn gen_program(tape: &mut Tape) -> Option<(Program, Vec<Rendered>, bool)> {
    let stress = tape.chance(1, 4);
    let cfg = GenCfg { shadowing: true, scope_stress: stress, max_decls: 9, max_resources: 2, max_depth: 3, ..GenCfg::strict() };
    let (prog, _) = Gen::new(tape, cfg).program();
    let rendered = if tape.chance(1, 2) { render_trivia(&prog, tape) } else { render_plain(&prog) };
    // Only accepted programs have a binding relation to mirror.
    let ok = matches!(crate::engine::catch(|| load(&to_sources(&rendered))), Ok(Ok(_)));
    let qualified = rendered.iter().any(|r| r.toks.iter().any(|t| matches!(t.occ, Some(Occ::QualUse(_)))));
    if ok {
        Some((prog, rendered, qualified))
    } else {
        REJECTED.with(|c| *c.borrow_mut() = Some(to_sources(&rendered)));
        None
    }
}

thread_local! {
    /// The last generated program that was not accepted (programs of the strict fragment are
    /// well scoped and well kinded by construction: a rejection means names are not bound the way
    /// the language says, which is what the property is about).
    pub static REJECTED: std::cell::RefCell<Option<Sources>> = const { std::cell::RefCell::new(None) };
}

/// The failure to report when `gen_program` returns nothing.
pub fn rejected_failure(id: &str) -> (Failure, Option<Sources>) {
    let src = REJECTED.with(|c| c.borrow_mut().take());
    let why = src.as_ref().map(|s| match crate::engine::catch(|| load(s)) {
        Ok(Err(e)) => format!("{e:?}"),
        Ok(Ok(_)) => "accepted on a second try".to_owned(),
        Err(p) => format!("panic at {}: {}", p.location, p.message),
    });
    (
        Failure::new(format!("{id}:generated-program-rejected"), format!("a program that is well scoped and well kinded by construction is not accepted: {}", why.unwrap_or_default().chars().take(600).collect::<String>())),
        src,
    )
}

impl Property for C17 {
    fn id(&self) -> &'static str {
        "C17"
    }
    fn tape_len(&self) -> usize {
        4000
    }
    fn cases(&self, tier: Tier) -> u64 {
        n_cases(tier)
    }
    fn rule(&self) -> String {
        "Cases: accepted generated multi-module programs in shadowing mode (names from a pool of 3-4, qualified and unqualified imports, the \
         same module under two qualifiers), half of them laid out with random trivia (CRLF, comments with astral characters), written to a \
         scratch workspace and served by the real oal-lsp; cursor offsets: start, middle, last character and end of every token plus one in \
         four of all other offsets (all offsets in the thorough tier), converted to UTF-16 positions by R-pos. Oracle from the generator's \
         binding table: (1) inside an identifier that is a use (for q.x anywhere in q or x): definition = exactly one location, in the \
         binder's module, whose range is the whole `let ...;` statement (declarations) or the binding identifier (parameters, rec binders); \
         nothing for the built-in; (2) inside a use or a declaration's own identifier: references = exactly (as a set, without duplicates) \
         the identifier ranges of all uses bound to that binder in all modules; (3) hence every returned reference leads back to that \
         declaration; (4) at offsets in no identifier and no qualified variable (keywords, punctuation, literals, property names, path \
         segments, comments, blanks, annotations): both answers empty. evaluations counts positions. Non-trivial: >= 2 modules, a qualified \
         use and references across modules. Distinct by source hash."
            .to_owned()
    }
    fn assumptions(&self) -> Vec<String> {
        vec![
            "qualifier definitions and the `.` of a qualified name are identifiers or inside a variable node but neither uses nor declarations: nothing is asserted there; at the binding identifier of a parameter / rec binder only soundness is asserted (what is returned are uses of that binder), not completeness".into(),
            "the questions are asked about files served from disk; one case in three first opens a module with another layout, lets the server evaluate it and closes it unsaved (C15 covers edit histories in general)".into(),
        ]
    }
    fn run_case(&self, tape: &mut Tape, ctx: &CaseCtx) -> CaseReport {
        let mut r = CaseReport::default();
        let Some((prog, rendered, qualified)) = gen_program(tape) else {
            r.label("not-accepted");
            let (f, src) = rejected_failure("c17");
            r.fail(f);
            r.rendered = src.map(|s| json!({"sources": s.to_json()}));
            return r;
        };
        let sources = to_sources(&rendered);
        r.hash = sources.hash64();
        // One case in three: a module is first opened with another layout of the same module (other
        // offsets, same bindings), evaluated, and closed without saving.
        let visit: Option<(String, String)> = if tape.chance(1, 3) {
            let m = tape.choose(rendered.len());
            let other = if tape.chance(1, 2) { render_trivia(&prog, tape) } else { render_plain(&prog) };
            (other[m].text != rendered[m].text).then(|| (rendered[m].file.clone(), other[m].text.clone()))
        } else {
            None
        };
        check_program(&prog, &rendered, visit.as_ref().map(|(f, t)| (f.as_str(), t.as_str())), tape, ctx.tier == Tier::Thorough, &mut r);
        r.nontrivial = rendered.len() >= 2 && qualified && r.has_label("references-across-modules");
        if qualified {
            r.label("qualified-use");
        }
        if rendered.iter().any(|x| !x.text.is_ascii()) {
            r.label("non-ascii");
        }
        if ctx.want_rendered || r.failure.is_some() {
            r.rendered = Some(json!({"sources": sources.to_json(), "visit": visit}));
        }
        r
    }
    fn replay(&self, _case: &Value) -> Option<Result<(), Failure>> {
        None
    }
}
