//! C13 — front ends agree, and the CLI writes the target only on success.

use crate::docq::equivalent;
use crate::engine::{catch, CaseCtx, CaseReport, Failure, Property, Tier};
use crate::gen::ast::{render_plain, to_sources};
use crate::gen::base::{gen_base, to_yaml};
use crate::gen::text::{join_tokens, mutate_tokens, split_tokens};
use crate::gen::typed::{Gen, GenCfg};
use crate::lspc::{run_cli, Lsp, LspError, Scratch};
use crate::oal::*;
use crate::tape::Tape;
use serde_json::{json, Value};

pub struct C13;

fn n_cases(tier: Tier) -> u64 {
    match tier {
        Tier::Quick => 20_000,
        Tier::Thorough => 400_000,
    }
}

#[derive(Clone, Copy, Debug, PartialEq, Eq)]
enum Cfg {
    /// `-m main.oal -t out.yaml`
    Options,
    /// `--conf oal.toml`
    ConfOnly,
    /// `--conf oal.toml -t out.yaml`, the file naming another target
    ConfOverridden,
    /// `--conf cfg/oal.toml` with paths relative to the configuration file
    ConfInSubdir,
}

#[derive(Clone, Copy, Debug, PartialEq, Eq)]
enum BaseKind {
    None,
    Valid,
    Malformed,
}

/// The pre-existing target is longer than any generated document, so that a write that does not
/// truncate shows, too.
/// Texts the editor shows the server before going back to the text of the case: each fails in
/// another phase (resolution, grammar, import, kinds, evaluation).
const DETOURS: [&str; 5] = [
    "res zq9 on get -> <>;\n",
    "let = ;\n",
    "use \"nowhere9.oal\";\nres / on get -> <>;\n",
    "let a = num;\nres a on get -> <>;\n",
    "res / on get -> <status=99, {}>;\n",
];

fn sentinel() -> &'static str {
    static S: std::sync::OnceLock<String> = std::sync::OnceLock::new();
    S.get_or_init(|| {
        let mut s = String::from("SENTINEL: this file must survive a failing run\n");
        for i in 0..6000 {
            s.push_str(&format!("# padding line {i}\n"));
        }
        s
    })
}

fn gen_case(tape: &mut Tape) -> (&'static str, Sources) {
    let single = tape.chance(1, 3);
    let cfg = GenCfg { max_decls: 8, max_modules: if single { 1 } else { 3 }, ..GenCfg::strict() };
    let (mut prog, _) = Gen::new(tape, cfg).program();
    let class = tape.weighted(&[30, 8, 10, 8, 8, 10, 10, 8, 8, 5]);
    let mut name = "accepted";
    match class {
        5 => {
            if crate::props::c07::inject_scope_error(&mut prog, tape).is_some() {
                name = "resolution";
            }
        }
        6 => {
            if crate::props::c07::inject_kind_error(&mut prog, tape).is_some() {
                name = "kinds";
            }
        }
        _ => {}
    }
    let mut s = to_sources(&render_plain(&prog));
    let main = s.main.clone();
    match class {
        1 => {
            let t = s.files.get_mut(&main).unwrap();
            let bad = tape.pick(&["^", "\u{1F600}", "\\", "\u{e9}"]);
            let at = tape.choose(t.len() + 1);
            let mut at = at;
            while !t.is_char_boundary(at) {
                at -= 1;
            }
            t.insert_str(at, &format!(" {bad} "));
            name = "lexical-or-inside-string";
        }
        2 => {
            let names: Vec<String> = s.files.keys().cloned().collect();
            let f = tape.pick_ref(&names).clone();
            let toks = split_tokens(&s.files[&f]);
            s.files.insert(f, join_tokens(&mutate_tokens(tape, toks)));
            name = "mutant";
        }
        3 => {
            let t = s.files.get_mut(&main).unwrap();
            t.push_str("use \"nowhere.oal\" ;\n");
            name = "import-missing";
        }
        4 => {
            let names: Vec<String> = s.files.keys().cloned().collect();
            let f = tape.pick_ref(&names).clone();
            let t = s.files.get_mut(&f).unwrap();
            t.push_str(&format!("use \"{main}\" as cyc ;\n"));
            name = if f == main { "import-self" } else { "import-cycle" };
        }
        7 => {
            let t = s.files.get_mut(&main).unwrap();
            let st = tape.pick(&["99", "600", "0", "1000"]);
            t.push_str(&format!("res /zz9 on get -> < status = {st} , {{ }} > ;\n"));
            name = "eval-status";
        }
        9 => {
            // An import that names a directory (it exists, but it is not a source file).
            let names: Vec<String> = s.files.keys().cloned().collect();
            let f = tape.pick_ref(&names).clone();
            let depth = f.matches('/').count();
            let dir = *tape.pick_ref(&["./", "", "../"]);
            let path = if dir == "../" && depth == 0 { "./".to_owned() } else { dir.to_owned() };
            let t = s.files.get_mut(&f).unwrap();
            *t = format!("use \"{path}\" as zd9 ;\n{t}");
            name = "import-directory";
        }
        8 => {
            let t = s.files.get_mut(&main).unwrap();
            t.push_str("res /zz8 on get -> # description: [unclosed\n < { } > ;\n");
            name = "eval-annotation";
        }
        _ => {}
    }
    (name, s)
}

struct Run {
    code: Option<i32>,
    status: String,
    stderr: String,
}

/// The name of the target: one case in four has a blank or a non-ASCII letter in it (such names
/// are percent-encoded in the locator and must come back as they were on the file system).
fn target_name(sources: &Sources) -> &'static str {
    match sources.hash64() % 8 {
        0 => "out file.yaml",
        1 => "\u{f6}ut.yaml",
        _ => "out.yaml",
    }
}

fn setup(dir: &Scratch, sources: &Sources, cfg: Cfg, base: BaseKind, base_yaml: &str, target_exists: bool) -> Vec<String> {
    let out = target_name(sources);
    let _ = std::fs::remove_dir_all(&dir.path);
    std::fs::create_dir_all(&dir.path).ok();
    for (name, text) in &sources.files {
        dir.write(name, text);
    }
    match base {
        BaseKind::None => {}
        BaseKind::Valid => dir.write("base.yaml", base_yaml),
        BaseKind::Malformed => dir.write("base.yaml", "openapi: [unclosed\n  info: {"),
    }
    if target_exists {
        dir.write(out, sentinel());
        dir.write("wrong.yaml", sentinel());
    }
    let base_line = |prefix: &str| if base == BaseKind::None { String::new() } else { format!("base = \"{prefix}base.yaml\"\n") };
    let main = &sources.main;
    match cfg {
        Cfg::Options => {
            let mut a = vec!["-m".to_owned(), main.clone(), "-t".to_owned(), out.to_owned()];
            if base != BaseKind::None {
                a.push("-b".to_owned());
                a.push("base.yaml".to_owned());
            }
            a
        }
        Cfg::ConfOnly => {
            dir.write("oal.toml", &format!("[api]\nmain = \"{main}\"\ntarget = \"{out}\"\n{}", base_line("")));
            vec!["--conf".to_owned(), "oal.toml".to_owned()]
        }
        Cfg::ConfOverridden => {
            dir.write("oal.toml", &format!("[api]\nmain = \"{main}\"\ntarget = \"wrong.yaml\"\n{}", base_line("")));
            vec!["--conf".to_owned(), "oal.toml".to_owned(), "-t".to_owned(), out.to_owned()]
        }
        Cfg::ConfInSubdir => {
            dir.write("cfg/oal.toml", &format!("[api]\nmain = \"../{main}\"\ntarget = \"../{out}\"\n{}", base_line("../")));
            vec!["--conf".to_owned(), "cfg/oal.toml".to_owned()]
        }
    }
}

pub fn check_case(sources: &Sources, class: &str, cfg_ix: usize, base_ix: usize, target_exists: bool, base_yaml: &str, r: &mut CaseReport) {
    let cfg = [Cfg::Options, Cfg::ConfOnly, Cfg::ConfOverridden, Cfg::ConfInSubdir][cfg_ix % 4];
    let base = [BaseKind::None, BaseKind::Valid, BaseKind::Malformed][base_ix % 3];
    // What the pipeline says, in-process.
    let base_doc = if base == BaseKind::Valid { serde_yaml::from_str::<openapiv3::OpenAPI>(base_yaml).ok() } else { None };
    let expected = match catch(|| pipeline(sources, base_doc)) {
        Ok(o) => o,
        Err(_) => return, // a crash of the pipeline is C01/C04's business
    };
    let source_ok = matches!(expected, Outcome::Document { .. });
    let should_succeed = source_ok && base != BaseKind::Malformed;
    let dir = Scratch::new("c13");
    let args = setup(&dir, sources, cfg, base, base_yaml, target_exists);
    let argv: Vec<&str> = args.iter().map(|s| s.as_str()).collect();
    let target = dir.path.join(target_name(sources));
    if target_name(sources) != "out.yaml" {
        r.label("odd-target-name");
    }
    let wrong = dir.path.join("wrong.yaml");
    let mtime_before = std::fs::metadata(&target).and_then(|m| m.modified()).ok();
    let res = run_cli(&dir.path, &argv);
    let run = Run { code: res.code, status: res.status.clone(), stderr: res.stderr.clone() };
    r.evaluations = 1;
    r.label(format!("class:{class}"));
    r.label(format!("cfg:{cfg:?}"));
    r.label(format!("base:{base:?}"));
    r.label(if should_succeed { "expect:success" } else { "expect:failure" });
    // (1) exit status 0 or 1, and 0 exactly when the pipeline has a document.
    match run.code {
        Some(0) | Some(1) => {}
        _ => {
            r.fail(Failure::new(format!("c13:cli-exit:{}", run.status), format!("oal-cli ended with {}; stderr: {}", run.status, run.stderr)));
            return;
        }
    }
    let succeeded = run.code == Some(0);
    if succeeded != should_succeed {
        r.fail(Failure::new(
            format!("c13:verdict:{}", if succeeded { "cli-succeeds" } else { "cli-fails" }),
            format!("the pipeline says {} (base {base:?}) but oal-cli exits with {:?}; stderr: {}", expected.verdict(), run.code, run.stderr),
        ));
        return;
    }
    let target_text = std::fs::read_to_string(&target).ok();
    if succeeded {
        // exit 0 <=> the complete document is in the target (and nowhere else).
        let Some(ref text) = target_text else {
            r.fail(Failure::new("c13:success-without-target", "oal-cli exits with 0 but the target does not exist".to_owned()));
            return;
        };
        if text.as_str() == sentinel() {
            r.fail(Failure::new("c13:success-without-target", "oal-cli exits with 0 but the target was not written".to_owned()));
            return;
        }
        if cfg == Cfg::ConfOverridden {
            let w = std::fs::read_to_string(&wrong).ok();
            if w.as_deref() != if target_exists { Some(sentinel()) } else { None } {
                r.fail(Failure::new("c13:option-does-not-override-config", "the target named in the configuration file was written although -t names another one".to_owned()));
                return;
            }
        }
        if let Outcome::Document { yaml, .. } = &expected {
            match (yaml_to_json(text), yaml_to_json(yaml)) {
                (Ok(got), Ok(want)) => {
                    if let Err(d) = equivalent(&got, &want) {
                        r.fail(Failure::new("c13:target-differs", format!("the target differs from the pipeline's document: {d}")));
                        return;
                    }
                    // The frame (everything but paths and schemas) must be there too.
                    for k in ["info", "servers", "security", "tags", "externalDocs", "openapi"] {
                        if got.get(k) != want.get(k) {
                            r.fail(Failure::new(format!("c13:target-frame-differs:{k}"), format!("`{k}`: target {:?}, pipeline {:?}", got.get(k), want.get(k))));
                            return;
                        }
                    }
                }
                (Err(e), _) => {
                    r.fail(Failure::new("c13:target-unreadable", format!("the target is not YAML: {e}")));
                    return;
                }
                _ => {}
            }
        }
    } else {
        // (2) a failing run leaves the target alone.
        if target_exists {
            let mtime_after = std::fs::metadata(&target).and_then(|m| m.modified()).ok();
            if target_text.as_deref() != Some(sentinel()) || mtime_after != mtime_before {
                r.fail(Failure::new("c13:target-touched-on-failure", "oal-cli exits with 1 but the existing target was modified".to_owned()));
                return;
            }
            if std::fs::read_to_string(&wrong).ok().as_deref() != Some(sentinel()) {
                r.fail(Failure::new("c13:target-touched-on-failure", "oal-cli exits with 1 but the configured target was modified".to_owned()));
                return;
            }
        } else if target.exists() || wrong.exists() {
            r.fail(Failure::new("c13:target-created-on-failure", "oal-cli exits with 1 but a target file was created".to_owned()));
            return;
        }
        // (3) a source error is located in the sources.
        if !source_ok {
            // An import that cannot be resolved is named by its own (missing) locator.
            let missing_import = expected.verdict() == "rejected:InvalidModule";
            let names_module = missing_import || sources.files.keys().any(|f| run.stderr.contains(f.rsplit('/').next().unwrap()));
            if run.stderr.trim().is_empty() || !run.stderr.contains("file://") || !names_module {
                r.fail(Failure::new(
                    format!("c13:diagnostic-not-located:{}", expected.verdict()),
                    format!("oal-cli fails ({}) without naming a module of the program; stderr: {:?}", expected.verdict(), run.stderr),
                ));
                return;
            }
        }
    }
    // (4) the playground entry point, for import-free programs.
    if sources.files.len() == 1 && !sources.files[&sources.main].contains("use") && base == BaseKind::None {
        if let Ok((api, error)) = catch(|| {
            let c = oal_wasm::compile(&sources.files[&sources.main]);
            (c.api, c.error)
        }) {
            r.evaluations += 1;
            r.label("wasm-compared");
            if api.is_empty() == succeeded {
                r.fail(Failure::new(
                    "c13:playground-disagrees",
                    format!("oal-cli {} but the playground entry point {} ({})", if succeeded { "succeeds" } else { "fails" }, if api.is_empty() { "fails" } else { "succeeds" }, error),
                ));
                return;
            }
            if succeeded {
                if let (Ok(a), Some(Ok(b))) = (yaml_to_json(&api), target_text.as_deref().map(yaml_to_json)) {
                    if let Err(d) = equivalent(&a, &b) {
                        r.fail(Failure::new("c13:playground-document-differs", d));
                        return;
                    }
                }
            }
        }
    }
    // (5) the language server publishes a diagnostic exactly when the sources are at fault.
    if base != BaseKind::Malformed {
        dir.write("oal.toml", &format!("[api]\nmain = \"{}\"\ntarget = \"out.yaml\"\n", sources.main));
        match Lsp::start(&dir.path) {
            Ok(mut lsp) => {
                let uri = dir.uri(&sources.main);
                match lsp.barrier(&uri) {
                    Ok(()) => {
                        r.evaluations += 1;
                        r.label("lsp-compared");
                        let total: usize = lsp.diags.values().map(|d| d.len()).sum();
                        if (total >= 1) != !source_ok {
                            r.fail(Failure::new(
                                format!("c13:language-server-disagrees:{}", expected.verdict()),
                                format!("the pipeline says {}, oal-lsp published {total} diagnostic(s): {:?}", expected.verdict(), lsp.diags),
                            ));
                        } else if let Some(detour) = DETOURS.get((sources.hash64() % 8) as usize) {
                            // Five cases in eight: the editor opens the main module with another text
                            // (one that fails in some phase), lets the server see it, and changes it
                            // back to the text of the case: the verdict is that of the case again.
                            let text = sources.files.get(&sources.main).cloned().unwrap_or_default();
                            let res = lsp
                                .did_open(&uri, detour)
                                .and_then(|_| lsp.barrier(&uri))
                                .and_then(|_| {
                                    // Back to the text of the case: in full, or by one didChange with
                                    // two ranged changes in document order.
                                    let h = sources.hash64();
                                    if h % 3 == 0 {
                                        let edits = crate::lspcheck::two_edits(detour, &text, ((h >> 8) as u32, (h >> 24) as u32));
                                        let changes: Vec<(Option<((u32, u32), (u32, u32))>, String)> = edits.into_iter().map(|(rg, t)| (Some(rg), t)).collect();
                                        lsp.did_change(&uri, &changes)
                                    } else {
                                        lsp.did_change(&uri, &[(None, text.clone())])
                                    }
                                })
                                .and_then(|_| lsp.barrier(&uri));
                            match res {
                                Ok(()) => {
                                    r.evaluations += 1;
                                    r.label("lsp-compared-after-detour");
                                    let total: usize = lsp.diags.values().map(|d| d.len()).sum();
                                    if (total >= 1) != !source_ok {
                                        r.fail(Failure::new(
                                            format!("c13:language-server-disagrees-after-detour:{}", expected.verdict()),
                                            format!(
                                                "after the main module was opened as {detour:?} and changed back to the text of the case, the pipeline says {}, oal-lsp has {total} diagnostic(s) published: {:?}",
                                                expected.verdict(),
                                                lsp.diags
                                            ),
                                        ));
                                    }
                                }
                                Err(LspError::Died(st, err)) => r.fail(Failure::new(format!("c13:language-server-died:{st}"), err)),
                                Err(LspError::Timeout) => r.label("lsp-timeout-inconclusive"),
                                Err(LspError::Protocol(m)) => r.fail(Failure::new("c13:lsp-protocol", m)),
                            }
                        }
                    }
                    Err(LspError::Died(st, err)) => r.fail(Failure::new(format!("c13:language-server-died:{st}"), err)),
                    Err(LspError::Timeout) => r.label("lsp-timeout-inconclusive"),
                    Err(LspError::Protocol(m)) => r.fail(Failure::new("c13:lsp-protocol", m)),
                }
            }
            Err(e) => r.fail(Failure::new("c13:lsp-cannot-start", format!("{e:?}"))),
        }
    }
}

impl Property for C13 {
    fn id(&self) -> &'static str {
        "C13"
    }
    fn tape_len(&self) -> usize {
        1800
    }
    fn cases(&self, tier: Tier) -> u64 {
        n_cases(tier)
    }
    fn rule(&self) -> String {
        "Cases: source sets (1-3 modules) that are accepted, or rejected in each phase: an illegal character (lexical, unless it lands in a \
         string or comment), a token mutant (syntax), a missing import, a self import or import cycle, an injected unbound name or duplicate \
         (resolution), an injected kind error, an out-of-range status or malformed annotation (evaluation). Configurations: options only, \
         --conf only, --conf with -t overriding another target, --conf in a sub-directory with relative paths; base absent, valid (generated) \
         or malformed; target pre-existing with sentinel bytes or absent. Oracle, with the verdict and document of the in-process pipeline as \
         reference: (1) oal-cli exits 0 or 1, 0 exactly when the pipeline has a document (and the base is readable), and then the target \
         holds that document (R-eq plus frame) and nothing else was written; (2) on failure an existing target (and the configured one) keeps \
         bytes and mtime, an absent one stays absent; (3) a source failure prints a diagnostic naming a file:// locator of a module of the \
         program (or the missing import); (4) for import-free programs oal_wasm::compile fails iff the CLI fails, else same document (R-eq); \
         (5) oal-lsp on the same folder publishes >= 1 diagnostic iff the sources are at fault. Non-trivial: a rejected source set, or an \
         accepted one with a base or a configuration file. Distinct by hash of (sources, configuration)."
            .to_owned()
    }
    fn assumptions(&self) -> Vec<String> {
        vec![
            "all files are valid UTF-8; the CLI is never run with -q when stderr is inspected".into(),
            "a malformed base is not a source error: (3) and (5) are not asserted for it".into(),
            "a wall-clock timeout of the language server is inconclusive, never a violation".into(),
        ]
    }
    fn run_case(&self, tape: &mut Tape, ctx: &CaseCtx) -> CaseReport {
        let (class, sources) = gen_case(tape);
        let cfg_ix = tape.choose(4);
        let base_ix = tape.weighted(&[5, 3, 1]);
        let target_exists = tape.chance(1, 2);
        let base_yaml = to_yaml(&gen_base(tape).0);
        let mut r = CaseReport::default();
        r.hash = {
            use std::hash::{Hash, Hasher};
            let mut h = std::collections::hash_map::DefaultHasher::new();
            (sources.clone(), cfg_ix, base_ix, target_exists).hash(&mut h);
            h.finish()
        };
        check_case(&sources, class, cfg_ix, base_ix, target_exists, &base_yaml, &mut r);
        r.nontrivial = r.has_label("expect:failure") || cfg_ix != 0 || base_ix != 0;
        if ctx.want_rendered || r.failure.is_some() {
            r.rendered = Some(json!({"class": class, "sources": sources.to_json(), "cfg": cfg_ix, "base": base_ix, "target_exists": target_exists, "base_yaml": base_yaml}));
        }
        r
    }
    fn replay(&self, case: &Value) -> Option<Result<(), Failure>> {
        let sources: Sources = serde_json::from_value(case.get("sources")?.clone()).ok()?;
        let class = case.get("class").and_then(|c| c.as_str()).unwrap_or("replay");
        let base_yaml = case.get("base_yaml").and_then(|c| c.as_str()).unwrap_or("openapi: 3.0.3\ninfo: {title: t, version: v}\npaths: {}\n");
        let fixed = (case.get("cfg").and_then(|x| x.as_u64()), case.get("base").and_then(|x| x.as_u64()), case.get("target_exists").and_then(|x| x.as_bool()));
        let mut r = CaseReport::default();
        match fixed {
            (Some(c), Some(b), Some(t)) => check_case(&sources, class, c as usize, b as usize, t, base_yaml, &mut r),
            _ => {
                // A finding stored as sources only: every configuration.
                for c in 0..4 {
                    for t in [false, true] {
                        if r.failure.is_none() {
                            check_case(&sources, class, c, 0, t, base_yaml, &mut r);
                        }
                    }
                }
            }
        }
        Some(match r.failure {
            Some(f) => Err(f),
            None => Ok(()),
        })
    }
}
