//! R-sem: the reference semantics. Maps a module set over the generator's own abstract syntax to
//! the expected OpenAPI document (a JSON value). It shares no code and no data structure with oal:
//! it works on the generator's AST, never looks a name up (variables carry binder ids, application
//! evaluates the body in an environment keyed by binder id), makes recursion an explicit `mu`, and
//! emits the document directly.

use crate::gen::ast::*;
use serde_json::{json, Map, Value};
use std::collections::{BTreeMap, BTreeSet};

#[derive(Clone, Debug, PartialEq, Eq, PartialOrd, Ord, Hash)]
pub enum RefId {
    /// An explicit `@name` declaration.
    Named(String),
    /// A declaration on a cycle, cut at a component.
    Mu(Bid),
    /// A `rec` expression: (address of the node, scope instance).
    MuRec(usize, u64),
}

#[derive(Clone, Debug, PartialEq)]
pub enum StatusV {
    Code(u64),
    Range(u8),
}

#[derive(Clone, Debug, PartialEq)]
pub enum PrimV {
    Num { minimum: Option<f64>, maximum: Option<f64>, multiple_of: Option<f64>, example: Option<f64> },
    Int { minimum: Option<i64>, maximum: Option<i64>, multiple_of: Option<i64>, example: Option<i64> },
    Str { pattern: Option<String>, enumeration: Vec<String>, format: Option<String>, example: Option<String>, min_length: Option<u64>, max_length: Option<u64> },
    Bool,
}

#[derive(Clone, Debug, PartialEq)]
pub enum SegV {
    Lit(String),
    Var(PropV),
}

#[derive(Clone, Debug, PartialEq)]
pub struct UriV {
    pub path: Vec<SegV>,
    pub params: Option<Vec<PropV>>,
    pub example: Option<String>,
}

#[derive(Clone, Debug, PartialEq)]
pub struct SchemaV {
    pub expr: Sv,
    pub desc: Option<String>,
    pub title: Option<String>,
    pub required: Option<bool>,
    pub examples: Option<Vec<(String, String)>>,
}

#[derive(Clone, Debug, PartialEq)]
pub struct PropV {
    pub name: String,
    pub schema: SchemaV,
    pub desc: Option<String>,
    pub required: Option<bool>,
}

#[derive(Clone, Debug, PartialEq, Default)]
pub struct ContentV {
    pub schema: Option<Box<SchemaV>>,
    pub status: Option<StatusV>,
    pub media: Option<String>,
    pub headers: Option<Vec<PropV>>,
    pub desc: Option<String>,
    pub examples: Option<Vec<(String, String)>>,
}

#[derive(Clone, Debug, PartialEq)]
pub struct XferV {
    pub methods: Vec<Method>,
    pub domain: ContentV,
    pub ranges: Vec<ContentV>,
    pub params: Option<Vec<PropV>>,
    pub desc: Option<String>,
    pub summary: Option<String>,
    pub tags: Vec<String>,
    pub id: Option<String>,
}

#[derive(Clone, Debug, PartialEq)]
pub struct RelV {
    pub uri: UriV,
    pub xfers: Vec<(Method, XferV)>,
}

/// Structural values.
#[derive(Clone, Debug, PartialEq)]
pub enum Sv {
    Num(u64),
    Str(String),
    Status(u8),
    Prim(PrimV),
    Uri(Box<UriV>),
    Relation(Box<RelV>),
    Object(Vec<PropV>),
    Array(Box<SchemaV>),
    Op(OpKind, Vec<SchemaV>),
    Ref(RefId, Box<Val>),
    RecVar(RefId),
    Property(Box<PropV>),
    Content(Box<ContentV>),
    Ranges(Vec<ContentV>),
    Transfer(Box<XferV>),
    Func(Bid),
    Concat,
}

pub type Val = (Sv, Ann);

/// What the program is expected to do.
#[derive(Clone, Debug)]
pub enum Expected {
    Document(Value),
    /// Evaluation must fail with an error of this kind.
    EvalError(&'static str),
    /// Compilation must reject the program (kind of error).
    Rejected(&'static str),
    /// Outside the strict fragment: no oracle (reason).
    Excluded(String),
}

#[derive(Debug)]
enum Stop {
    EvalError(&'static str),
    Excluded(String),
}

fn excluded<T>(why: &str) -> Result<T, Stop> {
    Err(Stop::Excluded(why.to_owned()))
}

// ---------------------------------------------------------------------------------------
// Annotations

/// Extends a value when possible, else overwrites: mappings merge deeply, sequences concatenate.
fn deep_extend_value(prev: &mut Value, other: Value) {
    match (prev, other) {
        (Value::Object(pm), Value::Object(om)) => deep_extend(pm, om),
        (Value::Array(pa), Value::Array(oa)) => pa.extend(oa),
        (p, o) => *p = o,
    }
}

pub fn deep_extend(prev: &mut Ann, other: Ann) {
    for (k, ov) in other {
        match prev.get_mut(&k) {
            Some(pv) => deep_extend_value(pv, ov),
            None => {
                prev.insert(k, ov);
            }
        }
    }
}

fn compose(anns: &[Ann]) -> Ann {
    let mut a = Ann::new();
    for x in anns {
        deep_extend(&mut a, x.clone());
    }
    a
}

fn get_str(a: &Ann, k: &str) -> Option<String> {
    a.get(k).and_then(|v| v.as_str()).map(|s| s.to_owned())
}
fn get_bool(a: &Ann, k: &str) -> Option<bool> {
    a.get(k).and_then(|v| v.as_bool())
}
fn get_num(a: &Ann, k: &str) -> Option<f64> {
    a.get(k).and_then(|v| v.as_f64())
}
fn get_int(a: &Ann, k: &str) -> Option<i64> {
    a.get(k).and_then(|v| v.as_i64())
}
fn get_size(a: &Ann, k: &str) -> Option<u64> {
    a.get(k).and_then(|v| v.as_u64())
}
fn get_enum(a: &Ann, k: &str) -> Option<Vec<String>> {
    a.get(k).and_then(|v| v.as_array()).map(|xs| xs.iter().filter_map(|x| x.as_str().map(|s| s.to_owned())).collect())
}
fn get_props(a: &Ann, k: &str) -> Option<Vec<(String, String)>> {
    a.get(k).and_then(|v| v.as_object()).map(|m| m.iter().filter_map(|(k, v)| v.as_str().map(|s| (k.clone(), s.to_owned()))).collect())
}

// ---------------------------------------------------------------------------------------
// Recursion analysis of the declaration graph (per module)

pub struct Cycles {
    pub recursive: BTreeSet<Bid>,
    /// The program has a cycle with nothing to cut at.
    pub invalid: bool,
}

fn decl_mentions(body: &E, out: &mut BTreeSet<Bid>) {
    body.visit(&mut |e| match e {
        E::Var(v) | E::App(v, _) => {
            if let Some(b) = v.binder {
                out.insert(b);
            }
        }
        _ => {}
    });
}

fn scc(nodes: &[Bid], edges: &BTreeSet<(Bid, Bid)>) -> Vec<Vec<Bid>> {
    // Tarjan.
    struct St<'a> {
        edges: &'a BTreeSet<(Bid, Bid)>,
        index: BTreeMap<Bid, usize>,
        low: BTreeMap<Bid, usize>,
        on: BTreeSet<Bid>,
        stack: Vec<Bid>,
        next: usize,
        out: Vec<Vec<Bid>>,
    }
    fn go(v: Bid, s: &mut St) {
        s.index.insert(v, s.next);
        s.low.insert(v, s.next);
        s.next += 1;
        s.stack.push(v);
        s.on.insert(v);
        let succ: Vec<Bid> = s.edges.range((v, 0)..(v + 1, 0)).map(|(_, b)| *b).collect();
        for w in succ {
            if !s.index.contains_key(&w) {
                go(w, s);
                let lw = s.low[&w];
                let lv = s.low[&v];
                s.low.insert(v, lv.min(lw));
            } else if s.on.contains(&w) {
                let iw = s.index[&w];
                let lv = s.low[&v];
                s.low.insert(v, lv.min(iw));
            }
        }
        if s.low[&v] == s.index[&v] {
            let mut comp = Vec::new();
            loop {
                let w = s.stack.pop().unwrap();
                s.on.remove(&w);
                comp.push(w);
                if w == v {
                    break;
                }
            }
            s.out.push(comp);
        }
    }
    let mut st = St { edges, index: BTreeMap::new(), low: BTreeMap::new(), on: BTreeSet::new(), stack: vec![], next: 0, out: vec![] };
    for n in nodes {
        if !st.index.contains_key(n) {
            go(*n, &mut st);
        }
    }
    st.out
}

pub fn analyse_cycles(prog: &Program) -> Cycles {
    let mut recursive = BTreeSet::new();
    let mut invalid = false;
    for (mi, m) in prog.modules.iter().enumerate() {
        let decls: Vec<&Decl> = m.stmts.iter().filter_map(|s| if let Stmt::Let(d) = s { Some(d) } else { None }).collect();
        let ids: Vec<Bid> = decls.iter().map(|d| d.id).collect();
        let idset: BTreeSet<Bid> = ids.iter().copied().collect();
        let mut edges: BTreeSet<(Bid, Bid)> = BTreeSet::new();
        for d in &decls {
            let mut ms = BTreeSet::new();
            decl_mentions(&d.body, &mut ms);
            for b in ms {
                // Only mentions of declarations of the same module can close a cycle.
                if idset.contains(&b) {
                    edges.insert((d.id, b));
                }
            }
        }
        let _ = mi;
        let referential = |b: Bid| -> bool {
            let d = decls.iter().find(|d| d.id == b).unwrap();
            d.params.is_empty() && matches!(prog.binders[b].k, K::S(t, _) if t != Tag::Uri)
        };
        if std::env::var("OALVERIF_DEBUG_CYCLES").is_ok() {
            eprintln!("module {}: decls {:?}", m.file, ids.iter().map(|b| (b, &prog.binders[*b].name, &prog.binders[*b].k)).collect::<Vec<_>>());
            eprintln!("edges {:?}", edges);
        }
        loop {
            let comps = scc(&ids, &edges);
            if std::env::var("OALVERIF_DEBUG_CYCLES").is_ok() {
                eprintln!("comps {:?}", comps);
            }
            let mut to_cut: BTreeSet<Bid> = BTreeSet::new();
            for c in comps {
                let trivial = c.len() == 1 && !edges.contains(&(c[0], c[0]));
                if trivial {
                    continue;
                }
                let cuts: Vec<Bid> = c.iter().copied().filter(|b| referential(*b)).collect();
                if cuts.is_empty() {
                    invalid = true;
                }
                for b in cuts {
                    recursive.insert(b);
                    to_cut.insert(b);
                }
            }
            if invalid || to_cut.is_empty() {
                break;
            }
            let before = edges.len();
            edges.retain(|(_, b)| !to_cut.contains(b));
            if edges.len() == before {
                break;
            }
        }
    }
    Cycles { recursive, invalid }
}

// ---------------------------------------------------------------------------------------
// Evaluation

pub struct Sem<'p> {
    prog: &'p Program,
    decls: BTreeMap<Bid, (usize, &'p Decl)>,
    recursive: BTreeSet<Bid>,
    refs: BTreeMap<RefId, Option<Val>>,
    ref_order: Vec<RefId>,
    /// Annotations inherited at each evaluation of a reference declaration.
    inherited: BTreeMap<RefId, Vec<Ann>>,
    rec_values: BTreeMap<RefId, Val>,
    /// `rec` instances: number of evaluations per node (for the component-count bounds of C09).
    pub rec_evaluations: BTreeMap<usize, u64>,
    scope_stack: Vec<u64>,
    scope_seq: u64,
    depth: usize,
    pub named_owner: BTreeMap<String, Bid>,
    /// Contradictory sources (duplicate names, methods, statuses) do not stop the evaluation:
    /// used to find out whether a program is order dependent (X4) whatever else is wrong with it.
    lenient: bool,
    x4: bool,
}

type Env = BTreeMap<Bid, Val>;

impl<'p> Sem<'p> {
    pub fn new(prog: &'p Program, recursive: BTreeSet<Bid>) -> Self {
        let mut decls = BTreeMap::new();
        for (mi, d) in prog.decls() {
            decls.insert(d.id, (mi, d));
        }
        Sem {
            prog,
            decls,
            recursive,
            refs: BTreeMap::new(),
            ref_order: Vec::new(),
            inherited: BTreeMap::new(),
            rec_values: BTreeMap::new(),
            rec_evaluations: BTreeMap::new(),
            scope_stack: Vec::new(),
            scope_seq: 0,
            depth: 0,
            named_owner: BTreeMap::new(),
            lenient: false,
            x4: false,
        }
    }

    fn name(&self, b: Bid) -> &str {
        &self.prog.binders[b].name
    }

    fn cast_schema(&self, v: Val) -> Result<SchemaV, Stop> {
        let (sv, ann) = v;
        match &sv {
            Sv::Prim(_) | Sv::Uri(_) | Sv::Relation(_) | Sv::Object(_) | Sv::Array(_) | Sv::Ref(_, _) | Sv::RecVar(_) => {}
            Sv::Op(k, _) if *k != OpKind::Range => {}
            _ => return excluded("cast: not a schema"),
        }
        Ok(SchemaV {
            expr: sv,
            desc: get_str(&ann, "description"),
            title: get_str(&ann, "title"),
            required: get_bool(&ann, "required"),
            examples: get_props(&ann, "examples"),
        })
    }

    fn cast_content(&self, v: Val) -> Result<ContentV, Stop> {
        match v.0 {
            Sv::Content(c) => Ok(*c),
            Sv::Ranges(_) | Sv::Transfer(_) | Sv::Property(_) | Sv::Num(_) | Sv::Str(_) | Sv::Status(_) | Sv::Func(_) | Sv::Concat => excluded("cast: not a content"),
            _ => {
                let s = self.cast_schema(v)?;
                Ok(ContentV { desc: s.desc.clone(), schema: Some(Box::new(s)), ..Default::default() })
            }
        }
    }

    fn cast_ranges(&self, v: Val) -> Result<Vec<ContentV>, Stop> {
        match v.0 {
            Sv::Ranges(r) => Ok(r),
            _ => Ok(vec![self.cast_content(v)?]),
        }
    }

    fn cast_property(&self, v: Val) -> Result<PropV, Stop> {
        match v.0 {
            Sv::Property(p) => Ok(*p),
            Sv::Ref(_, inner) => self.cast_property(*inner),
            _ => excluded("cast: not a property"),
        }
    }

    fn cast_object(&self, v: Val) -> Result<Vec<PropV>, Stop> {
        match v.0 {
            Sv::Object(o) => Ok(o),
            Sv::Ref(_, inner) => self.cast_object(*inner),
            _ => excluded("cast: not an object"),
        }
    }

    fn cast_uri(&self, v: Val) -> Result<UriV, Stop> {
        match v.0 {
            Sv::Uri(u) => Ok(*u),
            Sv::Relation(r) => Ok(r.uri),
            Sv::Ref(_, inner) => self.cast_uri(*inner),
            _ => excluded("cast: not a uri"),
        }
    }

    fn cast_relation(&self, v: Val) -> Result<RelV, Stop> {
        match v.0 {
            Sv::Relation(r) => Ok(*r),
            Sv::Uri(u) => Ok(RelV { uri: *u, xfers: vec![] }),
            Sv::Ref(_, inner) => self.cast_relation(*inner),
            _ => excluded("cast: not a relation"),
        }
    }

    fn cast_transfer(&self, v: Val) -> Result<XferV, Stop> {
        match v.0 {
            Sv::Transfer(x) => Ok(*x),
            Sv::Ref(_, inner) => self.cast_transfer(*inner),
            _ => excluded("cast: not a transfer"),
        }
    }

    fn props(&mut self, items: &'p [E], env: &Env, what: &str) -> Result<Vec<PropV>, Stop> {
        let mut out: Vec<PropV> = Vec::new();
        for it in items {
            let v = self.eval(it, env, Ann::new())?;
            let p = self.cast_property(v)?;
            if !self.lenient && out.iter().any(|q| q.name == p.name) {
                return excluded(&format!("X5: duplicate name in {what}"));
            }
            out.push(p);
        }
        Ok(out)
    }

    fn current_scope(&self) -> u64 {
        self.scope_stack.last().copied().unwrap_or(0)
    }

    fn eval_decl_use(&mut self, b: Bid, ann_in: Ann) -> Result<Val, Stop> {
        let (_, d) = self.decls[&b];
        if !d.params.is_empty() {
            return Ok((Sv::Func(b), ann_in));
        }
        let mut rhs_ann = compose(&d.anns);
        deep_extend(&mut rhs_ann, ann_in.clone());
        let is_named = self.name(b).starts_with('@');
        if is_named || self.recursive.contains(&b) {
            let id = if is_named { RefId::Named(self.name(b).to_owned()) } else { RefId::Mu(b) };
            if is_named {
                match self.named_owner.get(self.name(b)) {
                    Some(o) if *o != b => return Err(Stop::EvalError("InvalidIdentifier")),
                    _ => {
                        self.named_owner.insert(self.name(b).to_owned(), b);
                    }
                }
            }
            self.inherited.entry(id.clone()).or_default().push(ann_in);
            let empty = Env::new();
            match self.refs.get(&id) {
                None => {
                    self.refs.insert(id.clone(), None);
                    self.ref_order.push(id.clone());
                    let v = self.eval(&d.body, &empty, rhs_ann.clone())?;
                    self.refs.insert(id.clone(), Some(v.clone()));
                    Ok((Sv::Ref(id, Box::new(v)), rhs_ann))
                }
                Some(Some(v)) => Ok((Sv::Ref(id, Box::new(v.clone())), rhs_ann)),
                Some(None) => Ok((Sv::RecVar(id), rhs_ann)),
            }
        } else {
            let empty = Env::new();
            self.eval(&d.body, &empty, rhs_ann)
        }
    }

    pub fn eval(&mut self, e: &'p E, env: &Env, ann_in: Ann) -> Result<Val, Stop> {
        self.depth += 1;
        if self.depth > 400 {
            return excluded("evaluation too deep");
        }
        let r = self.eval_inner(e, env, ann_in);
        self.depth -= 1;
        r
    }

    fn eval_inner(&mut self, e: &'p E, env: &Env, ann_in: Ann) -> Result<Val, Stop> {
        let none = Ann::new;
        Ok(match e {
            E::Ann(lines, inline, inner) => {
                let mut composed = compose(lines);
                if let Some(i) = inline {
                    deep_extend(&mut composed, i.clone());
                }
                let mut a = ann_in;
                deep_extend(&mut a, composed);
                return self.eval(inner, env, a);
            }
            E::Paren(inner) => return self.eval(inner, env, ann_in),
            E::Num(n) => (Sv::Num(*n), ann_in),
            E::Str(s) => (Sv::Str(s.clone()), ann_in),
            E::Status(d) => (Sv::Status(*d), ann_in),
            E::Prim(p) => {
                let a = &ann_in;
                let sv = match p {
                    Prim::Bool => Sv::Prim(PrimV::Bool),
                    Prim::Int => Sv::Prim(PrimV::Int {
                        minimum: get_int(a, "minimum"),
                        maximum: get_int(a, "maximum"),
                        multiple_of: get_int(a, "multipleOf"),
                        example: get_int(a, "example"),
                    }),
                    Prim::Num => Sv::Prim(PrimV::Num {
                        minimum: get_num(a, "minimum"),
                        maximum: get_num(a, "maximum"),
                        multiple_of: get_num(a, "multipleOf"),
                        example: get_num(a, "example"),
                    }),
                    Prim::Str => Sv::Prim(PrimV::Str {
                        pattern: get_str(a, "pattern"),
                        enumeration: get_enum(a, "enum").unwrap_or_default(),
                        format: get_str(a, "format"),
                        example: get_str(a, "example"),
                        min_length: get_size(a, "minLength"),
                        max_length: get_size(a, "maxLength"),
                    }),
                    Prim::Uri => Sv::Uri(Box::new(UriV { path: vec![], params: None, example: get_str(a, "example") })),
                };
                (sv, ann_in)
            }
            E::Uri(segs, params) => {
                let example = get_str(&ann_in, "example");
                let mut path = Vec::new();
                for s in segs {
                    path.push(match s {
                        Seg::Root => SegV::Lit(String::new()),
                        Seg::Lit(l) => SegV::Lit(l.clone()),
                        Seg::Var(pe) => {
                            let v = self.eval(pe, env, none())?;
                            SegV::Var(self.cast_property(v)?)
                        }
                    });
                }
                let params = match params {
                    Some(ps) => Some(self.props(ps, env, "URI query parameters")?),
                    None => None,
                };
                (Sv::Uri(Box::new(UriV { path, params, example })), ann_in)
            }
            E::Object(items) => (Sv::Object(self.props(items, env, "an object")?), ann_in),
            E::Array(inner) => {
                let v = self.eval(inner, env, none())?;
                (Sv::Array(Box::new(self.cast_schema(v)?)), ann_in)
            }
            E::Property(name, mark, rhs) => {
                let desc = get_str(&ann_in, "description");
                let required = get_bool(&ann_in, "required").or(*mark);
                let v = self.eval(rhs, env, none())?;
                let schema = self.cast_schema(v)?;
                (Sv::Property(Box::new(PropV { name: name.clone(), schema, desc, required })), ann_in)
            }
            E::Unary(inner, req) => {
                let v = self.eval(inner, env, none())?;
                let mut p = self.cast_property(v)?;
                p.required = Some(*req);
                (Sv::Property(Box::new(p)), ann_in)
            }
            E::Content(metas, body) => {
                let desc = get_str(&ann_in, "description");
                let examples = get_props(&ann_in, "examples");
                let schema = match body {
                    Some(b) => {
                        let v = self.eval(b, env, none())?;
                        Some(Box::new(self.cast_schema(v)?))
                    }
                    None => None,
                };
                let mut status = if schema.is_none() { Some(StatusV::Code(204)) } else { None };
                let mut media = None;
                let mut headers = None;
                for (k, me) in metas {
                    let v = self.eval(me, env, none())?;
                    match k {
                        MetaKind::Media => {
                            media = Some(match self.unref(v).0 {
                                Sv::Str(s) => s,
                                _ => return excluded("cast: not a string"),
                            })
                        }
                        MetaKind::Headers => headers = Some(self.cast_object(v)?),
                        MetaKind::Status => {
                            status = Some(match self.unref(v).0 {
                                Sv::Status(d) => StatusV::Range(d),
                                Sv::Num(n) => {
                                    if (100..=599).contains(&n) {
                                        StatusV::Code(n)
                                    } else {
                                        return Err(Stop::EvalError("InvalidLiteral"));
                                    }
                                }
                                _ => return excluded("cast: not a status"),
                            })
                        }
                    }
                }
                if let Some(h) = &headers {
                    let mut seen = BTreeSet::new();
                    for p in h {
                        if !seen.insert(p.name.clone()) && !self.lenient {
                            return excluded("X5: duplicate header name");
                        }
                    }
                }
                (Sv::Content(Box::new(ContentV { schema, status, media, headers, desc, examples })), ann_in)
            }
            E::Op(OpKind::Range, ops) => {
                let mut ranges: Vec<ContentV> = Vec::new();
                for o in ops {
                    let v = self.eval(o, env, none())?;
                    for c in self.cast_ranges(v)? {
                        if !self.lenient && ranges.iter().any(|x| x.status == c.status && x.media == c.media) {
                            return excluded("X2: two contents with the same status and media type");
                        }
                        ranges.push(c);
                    }
                }
                (Sv::Ranges(ranges), ann_in)
            }
            E::Op(k, ops) => {
                let mut schemas = Vec::new();
                for o in ops {
                    let v = self.eval(o, env, none())?;
                    schemas.push(self.cast_schema(v)?);
                }
                (Sv::Op(*k, schemas), ann_in)
            }
            E::Transfer { methods, params, domain, range } => {
                let desc = get_str(&ann_in, "description");
                let summary = get_str(&ann_in, "summary");
                let tags = get_enum(&ann_in, "tags").unwrap_or_default();
                let id = get_str(&ann_in, "operationId");
                let domain = match domain {
                    Some(d) => {
                        let v = self.eval(d, env, none())?;
                        self.cast_content(v)?
                    }
                    None => ContentV::default(),
                };
                let v = self.eval(range, env, none())?;
                let ranges = self.cast_ranges(v)?;
                let params = match params {
                    Some(ps) => Some(self.props(ps, env, "transfer parameters")?),
                    None => None,
                };
                let mut ms: Vec<Method> = Vec::new();
                for m in methods {
                    if !ms.contains(m) {
                        ms.push(*m);
                    }
                }
                (Sv::Transfer(Box::new(XferV { methods: ms, domain, ranges, params, desc, summary, tags, id })), ann_in)
            }
            E::Relation(uri, xfers) => {
                let v = self.eval(uri, env, none())?;
                let uri = self.cast_uri(v)?;
                let mut out: Vec<(Method, XferV)> = Vec::new();
                for x in xfers {
                    let v = self.eval(x, env, none())?;
                    let xf = self.cast_transfer(v)?;
                    for m in &xf.methods {
                        if !self.lenient && out.iter().any(|(mm, _)| mm == m) {
                            return excluded("X5: the same method in two transfers of a relation");
                        }
                        out.push((*m, xf.clone()));
                    }
                }
                (Sv::Relation(Box::new(RelV { uri, xfers: out })), ann_in)
            }
            E::Rec(b, body) => {
                self.scope_seq += 1;
                let scope = self.scope_seq;
                let id = RefId::MuRec(e as *const E as usize, self.current_scope());
                *self.rec_evaluations.entry(e as *const E as usize).or_default() += 1;
                self.scope_stack.push(scope);
                let mut env2 = env.clone();
                env2.insert(*b, (Sv::RecVar(id.clone()), Ann::new()));
                let rhs = self.eval(body, &env2, ann_in);
                self.scope_stack.pop();
                let rhs = rhs?;
                if let Some(prev) = self.rec_values.get(&id) {
                    if *prev != rhs {
                        if self.lenient {
                            self.x4 = true;
                        } else {
                            return excluded("X4: a rec expression evaluated twice in one scope with different annotations");
                        }
                    }
                } else {
                    self.rec_values.insert(id.clone(), rhs.clone());
                    self.ref_order.push(id.clone());
                }
                self.refs.insert(id.clone(), Some(rhs.clone()));
                (Sv::Ref(id, Box::new(rhs)), Ann::new())
            }
            E::Var(v) => match v.binder {
                None => {
                    if v.free_name.as_deref() == Some("concat") {
                        (Sv::Concat, ann_in)
                    } else {
                        return excluded("unbound name");
                    }
                }
                Some(b) => match &self.prog.binders[b].kind {
                    BinderKind::Decl { .. } => return self.eval_decl_use(b, ann_in),
                    BinderKind::Param { .. } | BinderKind::Rec => {
                        let Some((sv, prev)) = env.get(&b).cloned() else {
                            return excluded("binder not in its lexical environment");
                        };
                        let mut a = prev;
                        deep_extend(&mut a, ann_in);
                        (sv, a)
                    }
                },
            },
            E::App(f, args) => {
                let head = E::Var(f.clone());
                // The head is evaluated without annotations.
                let hv = match f.binder {
                    None if f.free_name.as_deref() == Some("concat") => (Sv::Concat, Ann::new()),
                    None => return excluded("unbound name"),
                    Some(b) => match &self.prog.binders[b].kind {
                        BinderKind::Decl { .. } => self.eval_decl_use(b, Ann::new())?,
                        _ => match env.get(&b) {
                            Some(v) => v.clone(),
                            None => return excluded("binder not in its lexical environment"),
                        },
                    },
                };
                let _ = head;
                let mut argv = Vec::new();
                for a in args {
                    argv.push(self.eval(a, env, none())?);
                }
                match self.unref(hv).0 {
                    Sv::Concat => {
                        if argv.len() != 2 {
                            return excluded("concat arity");
                        }
                        let right = self.cast_uri(argv.pop().unwrap())?;
                        let mut left = self.cast_uri(argv.pop().unwrap())?;
                        if matches!(left.path.last(), Some(SegV::Lit(l)) if l.is_empty()) {
                            left.path.pop();
                        } else if left.path.is_empty() {
                            return excluded("concat on an empty path");
                        }
                        left.path.extend(right.path);
                        left.params = right.params;
                        left.example = None;
                        (Sv::Uri(Box::new(left)), ann_in)
                    }
                    Sv::Func(fb) => {
                        let (_, d) = self.decls[&fb];
                        if d.params.len() != argv.len() {
                            return excluded("arity");
                        }
                        // Lexical scope: the body sees its own parameters and nothing of the caller.
                        let mut env2 = Env::new();
                        for (p, a) in d.params.iter().zip(argv) {
                            env2.insert(*p, a);
                        }
                        let mut app_ann = compose(&d.anns);
                        deep_extend(&mut app_ann, ann_in);
                        self.scope_seq += 1;
                        let scope = self.scope_seq;
                        self.scope_stack.push(scope);
                        let r = self.eval(&d.body, &env2, app_ann);
                        self.scope_stack.pop();
                        return r;
                    }
                    _ => return excluded("cast: not a function"),
                }
            }
        })
    }

    fn unref(&self, v: Val) -> Val {
        match v.0 {
            Sv::Ref(_, inner) => self.unref(*inner),
            _ => v,
        }
    }

    // -----------------------------------------------------------------------------------
    // Emission

    fn ref_name(&self, id: &RefId, mu_names: &BTreeMap<RefId, String>) -> String {
        match id {
            RefId::Named(n) => n.trim_start_matches('@').to_owned(),
            other => mu_names[other].clone(),
        }
    }

    fn emit_schema(&self, s: &SchemaV, mu: &BTreeMap<RefId, String>) -> Value {
        match &s.expr {
            Sv::Ref(id, _) | Sv::RecVar(id) => json!({"$ref": format!("#/components/schemas/{}", self.ref_name(id, mu))}),
            other => {
                let mut m = match other {
                    Sv::Prim(PrimV::Num { minimum, maximum, multiple_of, example }) => {
                        let mut m = Map::new();
                        m.insert("type".into(), json!("number"));
                        ins(&mut m, "minimum", minimum.map(|x| json!(x)));
                        ins(&mut m, "maximum", maximum.map(|x| json!(x)));
                        ins(&mut m, "multipleOf", multiple_of.map(|x| json!(x)));
                        ins(&mut m, "example", example.map(|x| json!(x)));
                        m
                    }
                    Sv::Prim(PrimV::Int { minimum, maximum, multiple_of, example }) => {
                        let mut m = Map::new();
                        m.insert("type".into(), json!("integer"));
                        ins(&mut m, "minimum", minimum.map(|x| json!(x)));
                        ins(&mut m, "maximum", maximum.map(|x| json!(x)));
                        ins(&mut m, "multipleOf", multiple_of.map(|x| json!(x)));
                        ins(&mut m, "example", example.map(|x| json!(x)));
                        m
                    }
                    Sv::Prim(PrimV::Str { pattern, enumeration, format, example, min_length, max_length }) => {
                        let mut m = Map::new();
                        m.insert("type".into(), json!("string"));
                        ins(&mut m, "pattern", pattern.clone().map(|x| json!(x)));
                        if !enumeration.is_empty() {
                            m.insert("enum".into(), json!(enumeration));
                        }
                        ins(&mut m, "format", format.clone().map(|x| json!(x)));
                        ins(&mut m, "example", example.clone().or_else(|| enumeration.first().cloned()).map(|x| json!(x)));
                        ins(&mut m, "minLength", min_length.map(|x| json!(x)));
                        ins(&mut m, "maxLength", max_length.map(|x| json!(x)));
                        m
                    }
                    Sv::Prim(PrimV::Bool) => {
                        let mut m = Map::new();
                        m.insert("type".into(), json!("boolean"));
                        m
                    }
                    Sv::Uri(u) => self.emit_uri_schema(u),
                    Sv::Relation(r) => self.emit_uri_schema(&r.uri),
                    Sv::Object(props) => {
                        let mut m = Map::new();
                        m.insert("type".into(), json!("object"));
                        let mut ps = Map::new();
                        let mut req = Vec::new();
                        for p in props {
                            ps.insert(p.name.clone(), self.emit_schema(&p.schema, mu));
                            if p.required.or(p.schema.required).unwrap_or(false) {
                                req.push(json!(p.name));
                            }
                        }
                        m.insert("properties".into(), Value::Object(ps));
                        m.insert("required".into(), Value::Array(req));
                        m
                    }
                    Sv::Array(item) => {
                        let mut m = Map::new();
                        m.insert("type".into(), json!("array"));
                        m.insert("items".into(), self.emit_schema(item, mu));
                        m
                    }
                    Sv::Op(k, schemas) => {
                        let key = match k {
                            OpKind::Join => "allOf",
                            OpKind::Sum => "oneOf",
                            OpKind::Any => "anyOf",
                            OpKind::Range => unreachable!(),
                        };
                        let mut m = Map::new();
                        m.insert(key.into(), Value::Array(schemas.iter().map(|x| self.emit_schema(x, mu)).collect()));
                        m
                    }
                    _ => unreachable!("not a schema value"),
                };
                ins(&mut m, "description", s.desc.clone().map(|x| json!(x)));
                ins(&mut m, "title", s.title.clone().map(|x| json!(x)));
                Value::Object(m)
            }
        }
    }

    fn emit_uri_schema(&self, u: &UriV) -> Map<String, Value> {
        let mut m = Map::new();
        m.insert("type".into(), json!("string"));
        m.insert("format".into(), json!("uri-reference"));
        let example = u.example.clone().or_else(|| {
            if u.path.is_empty() {
                None
            } else {
                let mut s = String::new();
                for seg in &u.path {
                    s.push('/');
                    match seg {
                        SegV::Lit(l) => s.push_str(l),
                        SegV::Var(p) => {
                            // The type of a variable is the type of the schema it refers to.
                            let mut expr = &p.schema.expr;
                            for _ in 0..64 {
                                expr = match expr {
                                    Sv::Ref(_, inner) => &inner.0,
                                    Sv::RecVar(id) => match self.refs.get(id).and_then(|v| v.as_ref()).or_else(|| self.rec_values.get(id)) {
                                        Some(v) => &v.0,
                                        None => break,
                                    },
                                    _ => break,
                                };
                            }
                            let t = match expr {
                                Sv::Prim(PrimV::Num { .. }) => "number",
                                Sv::Prim(PrimV::Str { .. }) => "string",
                                Sv::Prim(PrimV::Bool) => "boolean",
                                Sv::Prim(PrimV::Int { .. }) => "integer",
                                _ => "unknown",
                            };
                            s.push_str(&format!("_{}_{}_", p.name, t));
                        }
                    }
                }
                Some(s)
            }
        });
        ins(&mut m, "example", example.map(|x| json!(x)));
        m
    }

    fn emit_param(&self, p: &PropV, location: &str, mu: &BTreeMap<RefId, String>) -> Value {
        let mut m = Map::new();
        m.insert("in".into(), json!(location));
        m.insert("name".into(), json!(p.name));
        ins(&mut m, "description", p.desc.clone().map(|x| json!(x)));
        let required = if location == "path" { true } else { p.required.unwrap_or(false) };
        m.insert("required".into(), json!(required));
        m.insert("schema".into(), self.emit_schema(&p.schema, mu));
        Value::Object(m)
    }

    fn emit_examples(&self, c: &ContentV) -> Option<Value> {
        let ex = c.examples.as_ref().or_else(|| c.schema.as_ref().and_then(|s| s.examples.as_ref()))?;
        let mut m = Map::new();
        for (k, url) in ex {
            m.insert(k.clone(), json!({"externalValue": url}));
        }
        Some(Value::Object(m))
    }

    fn pattern(u: &UriV) -> String {
        let mut s = String::new();
        for seg in &u.path {
            s.push('/');
            match seg {
                SegV::Lit(l) => s.push_str(l),
                SegV::Var(p) => s.push_str(&format!("{{{}}}", p.name)),
            }
        }
        s
    }

    fn emit_path_item(&self, rel: &RelV, mu: &BTreeMap<RefId, String>, op_ids: &mut Vec<(String, bool)>) -> Result<Value, Stop> {
        let mut item = Map::new();
        let mut params = Vec::new();
        let mut names = BTreeSet::new();
        for seg in &rel.uri.path {
            if let SegV::Var(p) = seg {
                if !names.insert(("path", p.name.clone())) {
                    return excluded("path variables not pairwise distinct");
                }
                params.push(self.emit_param(p, "path", mu));
            }
        }
        if let Some(q) = &rel.uri.params {
            for p in q {
                params.push(self.emit_param(p, "query", mu));
            }
        }
        item.insert("parameters".into(), Value::Array(params));
        for (method, x) in &rel.xfers {
            if x.id.is_some() && x.methods.len() > 1 {
                return excluded("X9: explicit operationId on a multi-method transfer");
            }
            let generated = {
                let mut parts = vec![method.text().to_owned()];
                for seg in &rel.uri.path {
                    parts.push(match seg {
                        SegV::Lit(l) if l.is_empty() => "root".to_owned(),
                        SegV::Lit(l) => l.to_lowercase(),
                        SegV::Var(p) => p.name.to_lowercase(),
                    });
                }
                parts.join("-")
            };
            let op_id = x.id.clone().unwrap_or(generated);
            op_ids.push((op_id.clone(), x.id.is_some()));
            let mut op = Map::new();
            let summary = x.summary.clone().or_else(|| x.desc.clone()).unwrap_or_else(|| op_id.clone());
            op.insert("summary".into(), json!(summary));
            ins(&mut op, "description", x.desc.clone().map(|d| json!(d)));
            op.insert("operationId".into(), json!(op_id));
            op.insert("tags".into(), json!(x.tags));
            let mut ps = Vec::new();
            if let Some(q) = &x.params {
                for p in q {
                    ps.push(self.emit_param(p, "query", mu));
                }
            }
            if let Some(h) = &x.domain.headers {
                for p in h {
                    ps.push(self.emit_param(p, "header", mu));
                }
            }
            op.insert("parameters".into(), Value::Array(ps));
            if let Some(schema) = &x.domain.schema {
                let media = x.domain.media.clone().unwrap_or_else(|| "application/json".to_owned());
                let mut mt = Map::new();
                mt.insert("schema".into(), self.emit_schema(schema, mu));
                ins(&mut mt, "examples", self.emit_examples(&x.domain));
                let mut content = Map::new();
                content.insert(media, Value::Object(mt));
                let mut body = Map::new();
                ins(&mut body, "description", x.domain.desc.clone().map(|d| json!(d)));
                body.insert("content".into(), Value::Object(content));
                op.insert("requestBody".into(), Value::Object(body));
            }
            let mut responses = Map::new();
            let mut seen: BTreeMap<String, (Option<Vec<PropV>>, Option<String>)> = BTreeMap::new();
            for c in &x.ranges {
                let key = match &c.status {
                    None => "default".to_owned(),
                    Some(StatusV::Code(n)) => n.to_string(),
                    Some(StatusV::Range(d)) => format!("{d}XX"),
                };
                // One headers/description slot per status.
                match seen.get(&key) {
                    Some((h, d)) if *h != c.headers || *d != c.desc => {
                        return excluded("X2: two contents of one status with different headers or description");
                    }
                    _ => {
                        seen.insert(key.clone(), (c.headers.clone(), c.desc.clone()));
                    }
                }
                let resp = responses.entry(key).or_insert_with(|| json!({"description": "", "content": {}, "headers": {}}));
                let resp = resp.as_object_mut().unwrap();
                if let Some(schema) = &c.schema {
                    let media = c.media.clone().unwrap_or_else(|| "application/json".to_owned());
                    let mut mt = Map::new();
                    mt.insert("schema".into(), self.emit_schema(schema, mu));
                    ins(&mut mt, "examples", self.emit_examples(c));
                    resp.get_mut("content").unwrap().as_object_mut().unwrap().insert(media, Value::Object(mt));
                }
                let mut hs = Map::new();
                if let Some(h) = &c.headers {
                    for p in h {
                        let mut hm = Map::new();
                        ins(&mut hm, "description", p.desc.clone().map(|d| json!(d)));
                        hm.insert("required".into(), json!(p.required.unwrap_or(false)));
                        hm.insert("schema".into(), self.emit_schema(&p.schema, mu));
                        hs.insert(p.name.clone(), Value::Object(hm));
                    }
                }
                resp.insert("headers".into(), Value::Object(hs));
                resp.insert("description".into(), json!(c.desc.clone().unwrap_or_default()));
            }
            op.insert("responses".into(), Value::Object(responses));
            item.insert(method.text().to_owned(), Value::Object(op));
        }
        Ok(Value::Object(item))
    }
}

fn ins(m: &mut Map<String, Value>, k: &str, v: Option<Value>) {
    if let Some(v) = v {
        m.insert(k.to_owned(), v);
    }
}

/// Extra facts about the reference evaluation, for C09's component-count checks.
#[derive(Default, Debug, Clone)]
pub struct SemFacts {
    /// Implicit components of the expected document (name -> kind: "decl" or "rec").
    pub implicit: BTreeMap<String, &'static str>,
    pub recursive_decls: usize,
    pub rec_instances: usize,
    pub rec_evaluations: u64,
    /// Implicit components whose schema is not atomic (atomic ones are inlined by the emitter).
    pub implicit_emitted: usize,
    /// Of those, the ones instantiated at top level (recursive declarations, `rec` under no application).
    pub implicit_emitted_top: usize,
    pub recursive_names: Vec<String>,
}

/// Whether the document of the program depends on the order in which the uses of a shared
/// component are evaluated (X4, the known finding F9), independently of anything else that puts
/// the program outside the strict fragment. `None`: the reference cannot evaluate the program.
pub fn order_dependent(prog: &Program) -> Option<bool> {
    let cycles = analyse_cycles(prog);
    if cycles.invalid {
        return None;
    }
    let mut sem = Sem::new(prog, cycles.recursive);
    sem.lenient = true;
    let empty = Env::new();
    for s in &prog.modules[0].stmts {
        if let Stmt::Res(e) = s {
            if sem.eval(e, &empty, Ann::new()).is_err() {
                return None;
            }
        }
    }
    let first_use_annotated = sem.inherited.values().any(|anns| anns.first().map_or(false, |a| !a.is_empty()));
    Some(sem.x4 || first_use_annotated)
}

pub fn expected(prog: &Program) -> (Expected, SemFacts) {
    let cycles = analyse_cycles(prog);
    let mut facts = SemFacts::default();
    if cycles.invalid {
        return (Expected::Rejected("InvalidType"), facts);
    }
    facts.recursive_decls = cycles.recursive.len();
    facts.recursive_names = cycles.recursive.iter().map(|b| prog.binders[*b].name.clone()).collect();
    let mut sem = Sem::new(prog, cycles.recursive);
    let empty = Env::new();
    let mut rels: Vec<RelV> = Vec::new();
    for s in &prog.modules[0].stmts {
        if let Stmt::Res(e) = s {
            let v = match sem.eval(e, &empty, Ann::new()) {
                Ok(v) => v,
                Err(Stop::EvalError(k)) => return (Expected::EvalError(k), facts),
                Err(Stop::Excluded(w)) => return (Expected::Excluded(w), facts),
            };
            match sem.cast_relation(v) {
                Ok(r) => rels.push(r),
                Err(Stop::Excluded(w)) => return (Expected::Excluded(w), facts),
                Err(Stop::EvalError(k)) => return (Expected::EvalError(k), facts),
            }
        }
    }
    // X4 (the known finding F9): the first evaluation of a shared declaration stores, in the
    // component, the annotations inherited at that use. Later uses only affect their own site.
    for (id, anns) in &sem.inherited {
        if anns.first().map_or(false, |a| !a.is_empty()) {
            let _ = id;
            return (Expected::Excluded("X4: the first evaluated use of a reference declaration inherits annotations".to_owned()), facts);
        }
    }
    // Names of the implicit components.
    let mut mu: BTreeMap<RefId, String> = BTreeMap::new();
    for (i, id) in sem.ref_order.iter().enumerate() {
        match id {
            RefId::Named(_) => {}
            RefId::Mu(_) => {
                mu.insert(id.clone(), format!("mu-{i}"));
                facts.implicit.insert(format!("mu-{i}"), "decl");
            }
            RefId::MuRec(_, _) => {
                mu.insert(id.clone(), format!("mu-{i}"));
                facts.implicit.insert(format!("mu-{i}"), "rec");
                facts.rec_instances += 1;
            }
        }
    }
    facts.rec_evaluations = sem.rec_evaluations.values().sum();
    let mut paths = Map::new();
    let mut op_ids: Vec<(String, bool)> = Vec::new();
    for r in &rels {
        let key = Sem::pattern(&r.uri);
        if paths.contains_key(&key) {
            return (Expected::Excluded("X1: two resources with the same path".to_owned()), facts);
        }
        match sem.emit_path_item(r, &mu, &mut op_ids) {
            Ok(v) => {
                paths.insert(key, v);
            }
            Err(Stop::Excluded(w)) => return (Expected::Excluded(w), facts),
            Err(Stop::EvalError(k)) => return (Expected::EvalError(k), facts),
        }
    }
    // X9: an explicit operationId equal to another id.
    for (i, (a, explicit)) in op_ids.iter().enumerate() {
        if *explicit && op_ids.iter().enumerate().any(|(j, (b, _))| j != i && a == b) {
            return (Expected::Excluded("X9: an explicit operationId is used twice".to_owned()), facts);
        }
    }
    let mut schemas = Map::new();
    for id in &sem.ref_order {
        if let Some(Some(v)) = sem.refs.get(id) {
            if !matches!(id, RefId::Named(_)) {
                let atomic = matches!(v.0, Sv::Prim(_) | Sv::Uri(_) | Sv::Relation(_));
                if !atomic {
                    facts.implicit_emitted += 1;
                    if matches!(id, RefId::Mu(_) | RefId::MuRec(_, 0)) {
                        facts.implicit_emitted_top += 1;
                    }
                }
            }
            let s = match sem.cast_schema(v.clone()) {
                Ok(s) => s,
                Err(_) => return (Expected::Excluded("a component is not a schema".to_owned()), facts),
            };
            schemas.insert(sem.ref_name(id, &mu), sem.emit_schema(&s, &mu));
        }
    }
    let doc = json!({
        "openapi": "3.0.3",
        "info": {"title": "OpenAPI definition", "version": "0.1.0"},
        "servers": [{"url": "/"}],
        "paths": Value::Object(paths),
        "components": {"schemas": Value::Object(schemas)},
    });
    (Expected::Document(doc), facts)
}
