//! Developer commands (not part of any check): look at what the generators produce.

use crate::gen::ast::*;
use crate::gen::typed::*;
use crate::oal::*;
use crate::tape::{Tape, TapeSource};
use std::collections::BTreeMap;

pub fn cfg_by_name(name: &str) -> GenCfg {
    match name {
        "strict" => GenCfg::strict(),
        "full" => GenCfg::full(),
        "shadow" => GenCfg { shadowing: true, ..GenCfg::strict() },
        "stress" => GenCfg { shadowing: true, scope_stress: true, max_decls: 12, ..GenCfg::strict() },
        "cycles2" => GenCfg { shadowing: true, invalid_cycles: true, loose_head_cycles: true, loose_rec_as_plain: true, max_decls: 14, ..GenCfg::full() },
        "loose" => GenCfg {
            loose_ranges_as_content: true,
            loose_op_as_plain: true,
            loose_rec_as_plain: true,
            loose_cross_module_poly: true,
            ..GenCfg::full()
        },
        _ => panic!("unknown cfg"),
    }
}

pub fn dev_gen(args: &[String]) -> i32 {
    let cfg = cfg_by_name(args.first().map(|s| s.as_str()).unwrap_or("strict"));
    let n: u64 = args.get(1).and_then(|s| s.parse().ok()).unwrap_or(5);
    let show: u64 = args.get(2).and_then(|s| s.parse().ok()).unwrap_or(n);
    let seed: u64 = args.get(3).and_then(|s| s.parse().ok()).unwrap_or(1);
    let src = TapeSource::new(seed, 1500);
    let mut verdicts: BTreeMap<String, u64> = BTreeMap::new();
    let mut shown_rej = 0;
    crate::engine::install_panic_hook();
    for i in 0..n {
        let mut t = Tape::new(src.tape(i));
        let (prog, labels) = Gen::new(&mut t, cfg.clone()).program();
        let rendered = render_plain(&prog);
        let sources = to_sources(&rendered);
        let out = crate::engine::catch(|| pipeline(&sources, None));
        let v = match &out {
            Ok(Outcome::Rejected(e)) => match e {
                LoadError::Compiler(c) => format!("rejected: {c}"),
                LoadError::Syntax(_, es) => format!("syntax: {}", es.iter().map(|e| e.to_string()).collect::<Vec<_>>().join("; ")),
                LoadError::Missing(l) => format!("missing {l}"),
            },
            Ok(o) => o.verdict(),
            Err(p) => format!("PANIC {}", p.signature()),
        };
        *verdicts.entry(v.clone()).or_default() += 1;
        let interesting = !matches!(out, Ok(Outcome::Document { .. }));
        if i < show || (interesting && shown_rej < 6) {
            if interesting {
                shown_rej += 1;
            }
            println!("=== case {i} verdict: {v} labels: {labels:?} tape used {}", t.consumed());
            for r in &rendered {
                println!("--- {}", r.file);
                print!("{}", r.text);
            }
            if let Ok(Outcome::Rejected(e)) = &out {
                for sp in e.spans() {
                    let name = name_of(sp.locator());
                    let text = sources.files.get(&name).map(|t| t.get(sp.range()).unwrap_or("?").to_owned()).unwrap_or_default();
                    println!("   at {sp}: {text}");
                }
            }
        }
    }
    println!("\nverdicts:");
    for (k, v) in verdicts {
        println!("{v:8}  {k}");
    }
    0
}

/// Distribution of the expansion estimate against the time the pipeline takes.
pub fn dev_expansion(args: &[String]) -> i32 {
    let cfg = cfg_by_name(args.first().map(|s| s.as_str()).unwrap_or("strict"));
    let n: u64 = args.get(1).and_then(|s| s.parse().ok()).unwrap_or(1000);
    let seed: u64 = args.get(2).and_then(|s| s.parse().ok()).unwrap_or(1);
    let src = TapeSource::new(seed, 1600);
    crate::engine::install_panic_hook();
    let mut buckets: BTreeMap<u32, (u64, f64)> = BTreeMap::new();
    for i in 0..n {
        let mut t = Tape::new(src.tape(i));
        let (prog, _) = Gen::new(&mut t, cfg.clone()).program_unbounded();
        let est = expansion_estimate(&prog);
        let b = if est.is_finite() { (est.max(1.0).log10() * 2.0) as u32 } else { 99 };
        let secs = if est < 3e6 {
            let sources = to_sources(&render_plain(&prog));
            let t0 = std::time::Instant::now();
            let _ = crate::engine::catch(|| pipeline(&sources, None));
            t0.elapsed().as_secs_f64()
        } else {
            -1.0
        };
        let e = buckets.entry(b).or_insert((0, 0.0));
        e.0 += 1;
        if secs > e.1 {
            e.1 = secs;
        }
    }
    println!("log10(estimate)*2  cases  max pipeline seconds");
    for (b, (c, s)) in buckets {
        println!("{:6.1} {c:8} {s:10.4}", b as f64 / 2.0);
    }
    0
}
