//! The exploration engine: deterministic case generation, worker processes, failure
//! attribution (including process deaths), shrinking, known findings, evidence.

use crate::tape::{shrink, Tape, TapeSource};
use serde::{Deserialize, Serialize};
use serde_json::{json, Value};
use std::collections::{BTreeMap, BTreeSet};
use std::io::{Read, Write};
use std::path::{Path, PathBuf};
use std::process::{Command, Stdio};
use std::sync::atomic::{AtomicU64, Ordering};
use std::sync::Arc;
use std::time::Instant;

/// The root of the verification tree (where known_findings.json, corpus/, evidence/ and replays/ live).
pub fn verif_dir() -> String {
    std::env::var("OALVERIF_HOME").unwrap_or_else(|_| "/verif".to_owned())
}

#[derive(Clone, Copy, Debug, PartialEq, Eq, Serialize, Deserialize)]
#[serde(rename_all = "lowercase")]
pub enum Tier {
    Quick,
    Thorough,
}

impl Tier {
    pub fn parse(s: &str) -> Option<Tier> {
        match s {
            "quick" => Some(Tier::Quick),
            "thorough" => Some(Tier::Thorough),
            _ => None,
        }
    }
    pub fn name(&self) -> &'static str {
        match self {
            Tier::Quick => "quick",
            Tier::Thorough => "thorough",
        }
    }
}

/// A violation of the property on one case.
#[derive(Clone, Debug, Serialize, Deserialize)]
pub struct Failure {
    /// Identifies the root cause as narrowly as the oracle can (e.g. panic site + message head).
    pub signature: String,
    /// Human readable explanation: what was expected, what happened.
    pub detail: String,
}

impl Failure {
    pub fn new<S: Into<String>, D: Into<String>>(signature: S, detail: D) -> Self {
        Failure {
            signature: signature.into(),
            detail: detail.into(),
        }
    }
}

/// What one generated case contributed.
#[derive(Clone, Debug, Default)]
pub struct CaseReport {
    /// Hash of the rendered case, for distinctness.
    pub hash: u64,
    /// Whether the case is non-trivial by the property's rule.
    pub nontrivial: bool,
    /// Class labels for the histogram (and for known-finding preconditions).
    pub labels: Vec<String>,
    /// Additive counters.
    pub counters: Vec<(String, u64)>,
    /// Counters aggregated with max (stored in thousandths for ratios).
    pub maxima: Vec<(String, u64)>,
    /// Number of oracle evaluations this case stands for (at least one).
    pub evaluations: u64,
    pub failure: Option<Failure>,
    /// The case written out (sources, history, equations …).
    pub rendered: Option<Value>,
}

impl CaseReport {
    pub fn label<S: Into<String>>(&mut self, l: S) {
        self.labels.push(l.into());
    }
    pub fn count<S: Into<String>>(&mut self, k: S, n: u64) {
        self.counters.push((k.into(), n));
    }
    pub fn max<S: Into<String>>(&mut self, k: S, n: u64) {
        self.maxima.push((k.into(), n));
    }
    pub fn fail(&mut self, f: Failure) {
        if self.failure.is_none() {
            self.failure = Some(f);
        }
    }
    pub fn has_label(&self, l: &str) -> bool {
        self.labels.iter().any(|x| x == l)
    }
}

pub struct CaseCtx {
    pub tier: Tier,
    pub index: u64,
    /// Whether `rendered` should be filled in even when the case passes.
    pub want_rendered: bool,
    /// Strict mode (replay / exec): known findings are not excluded by construction.
    pub seed: u64,
}

pub trait Property: Sync {
    fn id(&self) -> &'static str;
    fn tape_len(&self) -> usize {
        256
    }
    fn cases(&self, tier: Tier) -> u64;
    /// Text of the generator mix and of the non-triviality / distinctness rule.
    fn rule(&self) -> String;
    fn assumptions(&self) -> Vec<String>;
    /// Set when the run enumerates a finite space completely.
    fn exhaustive(&self, _tier: Tier) -> Option<String> {
        None
    }
    /// Generates case `ctx.index` from the tape and checks it. Must be deterministic.
    fn run_case(&self, tape: &mut Tape, ctx: &CaseCtx) -> CaseReport;
    /// Re-checks a saved case without any generator, if the property supports it.
    fn replay(&self, _case: &Value) -> Option<Result<(), Failure>> {
        None
    }
    /// Extra work done once by the driver before the search (oracle self-checks, …).
    /// Returns extra evidence keys, or a failure.
    fn prelude(&self, _tier: Tier) -> Result<BTreeMap<String, Value>, Failure> {
        Ok(BTreeMap::new())
    }
    /// Minimises a failing rendered case at the source level, keeping the signature; `None` if
    /// the property's cases cannot be re-checked from their rendering.
    fn minimize(&self, _case: &Value, _signature: &str) -> Option<Value> {
        None
    }
    /// CPU seconds one case may use before it counts as non-terminating.
    fn cpu_limit_s(&self) -> u64 {
        30
    }
}

// ------------------------------------------------------------------------------------------
// Panic capture

#[derive(Clone, Debug)]
pub struct PanicInfo {
    pub location: String,
    pub message: String,
}

impl PanicInfo {
    pub fn signature(&self) -> String {
        let head: String = self.message.chars().take(60).collect();
        // Strip volatile parts (numbers in hashes etc. are kept: they are part of the message head).
        // The line number is left out so that unrelated edits of the file do not change the signature.
        let file = self.location.rsplit_once(':').map(|(f, _)| f).unwrap_or(&self.location);
        // Volatile parts (generated hashes, numbers) are blanked so that one root cause is one signature.
        let mut norm = String::new();
        let cs: Vec<char> = head.replace('\n', " ").chars().collect();
        let mut i = 0;
        while i < cs.len() {
            if cs[i].is_ascii_hexdigit() {
                let mut j = i;
                while j < cs.len() && cs[j].is_ascii_hexdigit() {
                    j += 1;
                }
                let run: String = cs[i..j].iter().collect();
                let boundary_before = i == 0 || !cs[i - 1].is_ascii_alphanumeric();
                if run.len() >= 8 {
                    norm.push('~');
                } else if run.chars().all(|c| c.is_ascii_digit()) && boundary_before {
                    norm.push('#');
                } else {
                    norm.push_str(&run);
                }
                i = j;
            } else {
                norm.push(cs[i]);
                i += 1;
            }
        }
        format!("panic:{}:{}", file, norm)
    }
}

thread_local! {
    static LAST_PANIC: std::cell::RefCell<Option<PanicInfo>> = const { std::cell::RefCell::new(None) };
}

pub fn install_panic_hook() {
    std::panic::set_hook(Box::new(|info| {
        let location = info
            .location()
            .map(|l| {
                let f = l.file();
                // Make the site independent of where the repository is checked out.
                let f = f.rsplit_once("/oal-").map(|(_, r)| format!("oal-{r}")).unwrap_or(f.to_owned());
                format!("{}:{}", f, l.line())
            })
            .unwrap_or_else(|| "?".to_owned());
        let message = if let Some(s) = info.payload().downcast_ref::<&str>() {
            (*s).to_owned()
        } else if let Some(s) = info.payload().downcast_ref::<String>() {
            s.clone()
        } else {
            "<non-string panic>".to_owned()
        };
        LAST_PANIC.with(|p| *p.borrow_mut() = Some(PanicInfo { location, message }));
    }));
}

/// Runs `f`, converting a panic into a value.
pub fn catch<T>(f: impl FnOnce() -> T) -> Result<T, PanicInfo> {
    LAST_PANIC.with(|p| *p.borrow_mut() = None);
    match std::panic::catch_unwind(std::panic::AssertUnwindSafe(f)) {
        Ok(v) => Ok(v),
        Err(_) => Err(LAST_PANIC.with(|p| p.borrow_mut().take()).unwrap_or(PanicInfo {
            location: "?".to_owned(),
            message: "<unknown panic>".to_owned(),
        })),
    }
}

// ------------------------------------------------------------------------------------------
// Known findings

#[derive(Clone, Debug, Serialize, Deserialize)]
pub struct KnownFinding {
    pub property: String,
    pub id: String,
    pub status: String,
    #[serde(default)]
    pub commit: Option<String>,
    /// The failure signature must start with this.
    #[serde(default)]
    pub signature_prefix: String,
    /// Labels the failing case must carry (structural precondition).
    #[serde(default)]
    pub requires: Vec<String>,
    /// Path (relative to /verif) of the stored minimal reproduction.
    #[serde(default)]
    pub repro: Option<String>,
    pub what: String,
}

pub fn load_known_findings() -> Vec<KnownFinding> {
    let path = Path::new(&verif_dir()).join("known_findings.json");
    match std::fs::read_to_string(&path) {
        Ok(s) => {
            let v: Value = serde_json::from_str(&s).expect("known_findings.json parses");
            serde_json::from_value(v["findings"].clone()).expect("known_findings.json has the expected shape")
        }
        Err(_) => Vec::new(),
    }
}

pub fn match_known<'a>(known: &'a [KnownFinding], prop: &str, f: &Failure, labels: &[String]) -> Option<&'a KnownFinding> {
    known.iter().find(|k| {
        k.status == "open"
            && k.property == prop
            && !k.signature_prefix.is_empty()
            && f.signature.starts_with(&k.signature_prefix)
            && k.requires.iter().all(|r| labels.iter().any(|l| l == r))
    })
}

// ------------------------------------------------------------------------------------------
// Worker

#[derive(Clone, Debug, Default, Serialize, Deserialize)]
pub struct FoundFailure {
    pub index: u64,
    pub signature: String,
    pub detail: String,
    pub tape: Vec<u32>,
    pub shrunk_tape: Vec<u32>,
    pub case: Value,
    pub occurrences: u64,
}

#[derive(Clone, Debug, Default, Serialize, Deserialize)]
pub struct Summary {
    pub next_index: u64,
    pub done: bool,
    pub cases: u64,
    pub evaluations: u64,
    pub nontrivial_hashes: Vec<u64>,
    pub histogram: BTreeMap<String, u64>,
    pub counters: BTreeMap<String, u64>,
    pub maxima: BTreeMap<String, u64>,
    pub samples: Vec<Value>,
    pub failures: Vec<FoundFailure>,
    pub excluded_known: BTreeMap<String, u64>,
}

impl Summary {
    fn absorb_case(&mut self, r: &CaseReport, hashes: &mut BTreeSet<u64>) {
        self.cases += 1;
        self.evaluations += r.evaluations.max(1);
        if r.nontrivial {
            hashes.insert(r.hash);
        }
        for l in &r.labels {
            *self.histogram.entry(l.clone()).or_default() += 1;
        }
        for (k, n) in &r.counters {
            *self.counters.entry(k.clone()).or_default() += n;
        }
        for (k, n) in &r.maxima {
            let e = self.maxima.entry(k.clone()).or_default();
            *e = (*e).max(*n);
        }
    }

    pub fn merge(&mut self, other: Summary) {
        self.cases += other.cases;
        self.evaluations += other.evaluations;
        self.nontrivial_hashes.extend(other.nontrivial_hashes);
        for (k, n) in other.histogram {
            *self.histogram.entry(k).or_default() += n;
        }
        for (k, n) in other.counters {
            *self.counters.entry(k).or_default() += n;
        }
        for (k, n) in other.maxima {
            let e = self.maxima.entry(k).or_default();
            *e = (*e).max(n);
        }
        for s in other.samples {
            if self.samples.len() < 10 {
                self.samples.push(s);
            }
        }
        for f in other.failures {
            if let Some(e) = self.failures.iter_mut().find(|e| e.signature == f.signature) {
                e.occurrences += f.occurrences;
            } else {
                self.failures.push(f);
            }
        }
        for (k, n) in other.excluded_known {
            *self.excluded_known.entry(k).or_default() += n;
        }
    }
}

pub const EXIT_CPU_LIMIT: i32 = 97;
pub const EXIT_WALL_LIMIT: i32 = 98;
const WALL_LIMIT_S: u64 = 600;
const STACK_BYTES: usize = 64 << 20;

struct Watch {
    case_cpu_start_ns: AtomicU64,
    case_wall_start_ms: AtomicU64,
    active: AtomicU64,
}

/// CPU time consumed so far by the calling thread.
pub fn own_cpu_ns() -> u64 {
    thread_cpu_ns(libc::CLOCK_THREAD_CPUTIME_ID)
}

fn thread_cpu_ns(clock: libc::clockid_t) -> u64 {
    let mut ts = libc::timespec { tv_sec: 0, tv_nsec: 0 };
    unsafe { libc::clock_gettime(clock, &mut ts) };
    ts.tv_sec as u64 * 1_000_000_000 + ts.tv_nsec as u64
}

fn now_ms(origin: Instant) -> u64 {
    origin.elapsed().as_millis() as u64
}

fn write_atomic(path: &Path, bytes: &[u8]) {
    let tmp = path.with_extension("tmp");
    std::fs::write(&tmp, bytes).expect("write summary");
    std::fs::rename(&tmp, path).expect("rename summary");
}

pub struct WorkerArgs {
    pub tier: Tier,
    pub seed: u64,
    pub start: u64,
    pub end: u64,
    pub stride: u64,
    pub offset: u64,
    pub skip: Vec<u64>,
    pub cur_file: PathBuf,
    pub out_file: PathBuf,
}

/// Runs one case in-process, converting a stray panic (one the property did not guard) into a failure.
fn run_guarded(prop: &dyn Property, words: &[u32], ctx: &CaseCtx) -> CaseReport {
    let mut tape = Tape::new(words.to_vec());
    match catch(|| prop.run_case(&mut tape, ctx)) {
        Ok(r) => r,
        Err(p) => {
            let mut r = CaseReport::default();
            r.labels.push("unguarded-panic".to_owned());
            r.failure = Some(Failure::new(p.signature(), format!("panic at {}: {}", p.location, p.message)));
            r
        }
    }
}

pub fn worker_main(prop: &'static dyn Property, args: WorkerArgs) -> i32 {
    install_panic_hook();
    let origin = Instant::now();
    let watch = Arc::new(Watch {
        case_cpu_start_ns: AtomicU64::new(0),
        case_wall_start_ms: AtomicU64::new(0),
        active: AtomicU64::new(0),
    });
    let (clock_tx, clock_rx) = std::sync::mpsc::channel::<libc::clockid_t>();
    let cpu_limit_ns = prop.cpu_limit_s() * 1_000_000_000;

    // Watchdog: per-case CPU limit (a violation) and wall-clock limit (inconclusive).
    {
        let watch = watch.clone();
        std::thread::spawn(move || {
            let clock = clock_rx.recv().expect("clock id");
            loop {
                std::thread::sleep(std::time::Duration::from_millis(50));
                if watch.active.load(Ordering::SeqCst) == 0 {
                    continue;
                }
                let cpu = thread_cpu_ns(clock).saturating_sub(watch.case_cpu_start_ns.load(Ordering::SeqCst));
                if cpu > cpu_limit_ns {
                    unsafe { libc::_exit(EXIT_CPU_LIMIT) };
                }
                let wall = now_ms(origin).saturating_sub(watch.case_wall_start_ms.load(Ordering::SeqCst));
                if wall > WALL_LIMIT_S * 1000 {
                    unsafe { libc::_exit(EXIT_WALL_LIMIT) };
                }
            }
        });
    }

    let handle = std::thread::Builder::new()
        .stack_size(STACK_BYTES)
        .spawn(move || {
            let mut clock: libc::clockid_t = 0;
            unsafe { libc::pthread_getcpuclockid(libc::pthread_self(), &mut clock) };
            clock_tx.send(clock).unwrap();

            let known = load_known_findings();
            let source = TapeSource::new(args.seed, prop.tape_len());
            let mut summary = Summary::default();
            let mut hashes: BTreeSet<u64> = BTreeSet::new();
            let mut cur = std::fs::OpenOptions::new()
                .create(true)
                .write(true)
                .truncate(true)
                .open(&args.cur_file)
                .expect("open cur file");
            let mut last_flush = Instant::now();
            let mut index = args.start;
            // Align to this worker's residue class.
            while index % args.stride != args.offset {
                index += 1;
            }
            let sample_every = ((args.end.saturating_sub(args.start)) / args.stride / 4).max(1);
            let mut n_local = 0u64;
            let mut distinct_signatures = 0usize;
            while index < args.end {
                if args.skip.contains(&index) {
                    index += args.stride;
                    continue;
                }
                {
                    use std::os::unix::fs::FileExt;
                    cur.write_all_at(&index.to_le_bytes(), 0).ok();
                }
                watch.case_cpu_start_ns.store(thread_cpu_ns(clock), Ordering::SeqCst);
                watch.case_wall_start_ms.store(now_ms(origin), Ordering::SeqCst);
                watch.active.store(1, Ordering::SeqCst);

                let words = source.tape(index);
                let want_rendered = n_local % sample_every == 0 && summary.samples.len() < 4;
                let ctx = CaseCtx { tier: args.tier, index, want_rendered, seed: args.seed };
                let report = run_guarded(prop, &words, &ctx);
                summary.absorb_case(&report, &mut hashes);
                if want_rendered {
                    if let Some(r) = &report.rendered {
                        if report.nontrivial || summary.samples.is_empty() {
                            summary.samples.push(r.clone());
                        }
                    }
                }
                if let Some(f) = &report.failure {
                    if let Some(k) = match_known(&known, prop.id(), f, &report.labels) {
                        *summary.excluded_known.entry(k.id.clone()).or_default() += 1;
                    } else if let Some(e) = summary.failures.iter_mut().find(|e| e.signature == f.signature) {
                        e.occurrences += 1;
                    } else {
                        // New failure: shrink it in-process, keeping the signature fixed.
                        let sig = f.signature.clone();
                        // Shrinking an expensive failure (a hang seen through a child process) must
                        // not take forever: candidates tried after the deadline count as passing.
                        let shrink_deadline = Instant::now() + std::time::Duration::from_secs(25);
                        let shrunk = shrink(
                            &words,
                            |cand| {
                                if Instant::now() > shrink_deadline {
                                    return false;
                                }
                                watch.case_cpu_start_ns.store(thread_cpu_ns(clock), Ordering::SeqCst);
                                watch.case_wall_start_ms.store(now_ms(origin), Ordering::SeqCst);
                                let c = CaseCtx { tier: args.tier, index, want_rendered: false, seed: args.seed };
                                let r = run_guarded(prop, cand, &c);
                                r.failure.map(|f| f.signature == sig).unwrap_or(false)
                            },
                            1500,
                        );
                        let c = CaseCtx { tier: args.tier, index, want_rendered: true, seed: args.seed };
                        let final_report = run_guarded(prop, &shrunk, &c);
                        let (detail, case) = match (&final_report.failure, &final_report.rendered) {
                            (Some(ff), r) => (ff.detail.clone(), r.clone().unwrap_or(Value::Null)),
                            _ => (f.detail.clone(), report.rendered.clone().unwrap_or(Value::Null)),
                        };
                        // Source-level minimisation of the rendered case, when the property supports it.
                        watch.case_cpu_start_ns.store(thread_cpu_ns(clock), Ordering::SeqCst);
                        watch.case_wall_start_ms.store(now_ms(origin), Ordering::SeqCst);
                        let case = match catch(|| prop.minimize(&case, &sig)) {
                            Ok(Some(smaller)) => smaller,
                            _ => case,
                        };
                        summary.failures.push(FoundFailure {
                            index,
                            signature: sig,
                            detail,
                            tape: words.clone(),
                            shrunk_tape: shrunk,
                            case,
                            occurrences: 1,
                        });
                        distinct_signatures += 1;
                    }
                }
                watch.active.store(0, Ordering::SeqCst);
                n_local += 1;
                index += args.stride;
                summary.next_index = index;
                // A systematic defect makes (almost) every case fail: no point in going on.
                let total_failures: u64 = summary.failures.iter().map(|f| f.occurrences).sum();
                if distinct_signatures >= 4 || total_failures >= 6 {
                    break;
                }
                if last_flush.elapsed().as_millis() > 1500 {
                    summary.nontrivial_hashes = hashes.iter().copied().collect();
                    write_atomic(&args.out_file, &serde_json::to_vec(&summary).unwrap());
                    last_flush = Instant::now();
                }
            }
            summary.done = true;
            summary.nontrivial_hashes = hashes.iter().copied().collect();
            write_atomic(&args.out_file, &serde_json::to_vec(&summary).unwrap());
        })
        .expect("spawn work thread");
    match handle.join() {
        Ok(()) => 0,
        Err(_) => 99,
    }
}

// ------------------------------------------------------------------------------------------
// Exec (single case in a fresh process; used to attribute and shrink process deaths)

#[derive(Serialize, Deserialize)]
pub struct ExecResult {
    pub signature: Option<String>,
    pub detail: Option<String>,
    pub labels: Vec<String>,
    pub case: Value,
}

pub fn exec_main(prop: &'static dyn Property, tier: Tier, seed: u64, index: u64) -> i32 {
    install_panic_hook();
    let mut input = Vec::new();
    std::io::stdin().read_to_end(&mut input).expect("read tape");
    let words: Vec<u32> = serde_json::from_slice(&input).expect("tape json");
    let cpu_limit = prop.cpu_limit_s();
    unsafe {
        let lim = libc::rlimit { rlim_cur: cpu_limit, rlim_max: cpu_limit + 5 };
        libc::setrlimit(libc::RLIMIT_CPU, &lim);
    }
    let handle = std::thread::Builder::new()
        .stack_size(STACK_BYTES)
        .spawn(move || {
            let ctx = CaseCtx { tier, index, want_rendered: true, seed };
            let r = run_guarded(prop, &words, &ctx);
            let out = ExecResult {
                signature: r.failure.as_ref().map(|f| f.signature.clone()),
                detail: r.failure.as_ref().map(|f| f.detail.clone()),
                labels: r.labels.clone(),
                case: r.rendered.clone().unwrap_or(Value::Null),
            };
            println!("{}", serde_json::to_string(&out).unwrap());
        })
        .unwrap();
    match handle.join() {
        Ok(()) => 0,
        Err(_) => 99,
    }
}

/// The verdict of an `exec` subprocess.
pub enum ExecVerdict {
    Pass(ExecResult),
    Fail(ExecResult),
    Died { signature: String, stderr: String },
}

pub fn run_exec(prop_id: &str, tier: Tier, seed: u64, index: u64, words: &[u32]) -> ExecVerdict {
    let exe = std::env::current_exe().expect("current exe");
    let mut child = Command::new(exe)
        .args(["exec", prop_id, tier.name(), &seed.to_string(), &index.to_string()])
        .stdin(Stdio::piped())
        .stdout(Stdio::piped())
        .stderr(Stdio::piped())
        .spawn()
        .expect("spawn exec");
    child
        .stdin
        .take()
        .unwrap()
        .write_all(serde_json::to_string(words).unwrap().as_bytes())
        .ok();
    let out = child.wait_with_output().expect("exec output");
    let stderr = String::from_utf8_lossy(&out.stderr).to_string();
    if out.status.success() {
        let text = String::from_utf8_lossy(&out.stdout);
        if let Some(line) = text.lines().rev().find(|l| l.starts_with('{')) {
            if let Ok(r) = serde_json::from_str::<ExecResult>(line) {
                return if r.signature.is_some() { ExecVerdict::Fail(r) } else { ExecVerdict::Pass(r) };
            }
        }
    }
    ExecVerdict::Died {
        signature: death_signature(&out.status, &stderr),
        stderr,
    }
}

pub fn death_signature(status: &std::process::ExitStatus, stderr: &str) -> String {
    use std::os::unix::process::ExitStatusExt;
    if stderr.contains("has overflowed its stack") {
        return "death:stack-overflow".to_owned();
    }
    match (status.signal(), status.code()) {
        (Some(libc::SIGXCPU), _) | (Some(libc::SIGKILL), _) => "death:cpu-limit".to_owned(),
        (Some(s), _) => format!("death:signal-{s}"),
        (None, Some(c)) if c == EXIT_CPU_LIMIT => "death:cpu-limit".to_owned(),
        (None, Some(c)) => format!("death:exit-{c}"),
        (None, None) => "death:unknown".to_owned(),
    }
}

// ------------------------------------------------------------------------------------------
// Driver

pub struct RunOutcome {
    pub exit_code: i32,
}

fn scratch_dir() -> PathBuf {
    let d = std::env::temp_dir().join(format!("oalverif-{}", std::process::id()));
    std::fs::create_dir_all(&d).expect("scratch dir");
    d
}

pub fn jobs() -> u64 {
    std::env::var("VERIF_JOBS")
        .ok()
        .and_then(|s| s.parse().ok())
        .unwrap_or_else(|| std::thread::available_parallelism().map(|n| n.get() as u64).unwrap_or(8))
        .max(1)
}

pub fn seed_from_env() -> u64 {
    std::env::var("VERIF_SEED").ok().and_then(|s| s.parse().ok()).unwrap_or(1)
}

struct WorkerState {
    offset: u64,
    start: u64,
    skip: Vec<u64>,
    restarts: u32,
    merged: Summary,
    finished: bool,
}

pub fn driver_main(prop: &'static dyn Property, tier: Tier) -> i32 {
    let t0 = Instant::now();
    let seed = seed_from_env();
    let known = load_known_findings();
    let id = prop.id();
    let scratch = scratch_dir();
    let mut extra: BTreeMap<String, Value> = BTreeMap::new();
    let mut violations: Vec<FoundFailure> = Vec::new();
    let mut inconclusive: Option<String> = None;
    let mut known_reconfirmed: Vec<String> = Vec::new();

    // 1. Known findings of this property: replay each stored reproduction.
    for k in known.iter().filter(|k| k.property == id) {
        let Some(repro) = &k.repro else { continue };
        let path = Path::new(&verif_dir()).join(repro);
        let text = match std::fs::read_to_string(&path) {
            Ok(t) => t,
            Err(e) => {
                eprintln!("cannot read {}: {e}", path.display());
                inconclusive = Some(format!("missing repro {}", path.display()));
                continue;
            }
        };
        let case: Value = serde_json::from_str(&text).expect("repro is JSON");
        let verdict = run_replay_subprocess(id, &path);
        match (k.status.as_str(), verdict) {
            ("open", ReplayVerdict::Fail(sig)) if sig.starts_with(&k.signature_prefix) => {
                println!("KNOWN-FINDING: property={} {} [{}]", id, k.what, k.id);
                known_reconfirmed.push(k.id.clone());
            }
            ("open", ReplayVerdict::Fail(sig)) => {
                // Fails, but differently from what the finding describes: that is a new violation.
                violations.push(FoundFailure {
                    index: 0,
                    signature: sig.clone(),
                    detail: format!("stored reproduction of {} now fails with a different signature: {sig}", k.id),
                    case,
                    occurrences: 1,
                    ..Default::default()
                });
            }
            ("open", ReplayVerdict::Pass) => {
                eprintln!("note: known finding {} no longer reproduces", k.id);
                extra.insert(format!("known_finding_{}_reproduces", k.id), json!(false));
            }
            ("fixed", ReplayVerdict::Fail(sig)) => {
                violations.push(FoundFailure {
                    index: 0,
                    signature: sig.clone(),
                    detail: format!("regression: the fixed finding {} fails again: {sig}", k.id),
                    case,
                    occurrences: 1,
                    ..Default::default()
                });
            }
            ("fixed", ReplayVerdict::Pass) => {}
            (_, ReplayVerdict::Unsupported) => {}
            _ => {}
        }
    }

    // 2. Prelude (oracle self-checks, small exhaustive parts run by the driver itself).
    install_panic_hook();
    match catch(|| prop.prelude(tier)) {
        Ok(Ok(m)) => extra.extend(m),
        Ok(Err(f)) => violations.push(FoundFailure {
            index: 0,
            signature: f.signature,
            detail: f.detail,
            occurrences: 1,
            ..Default::default()
        }),
        Err(p) => violations.push(FoundFailure {
            index: 0,
            signature: p.signature(),
            detail: format!("panic in prelude at {}: {}", p.location, p.message),
            occurrences: 1,
            ..Default::default()
        }),
    }

    // 3. The search, sharded over worker processes.
    let total = prop.cases(tier);
    let n_workers = jobs().min(total.max(1));
    let exe = std::env::current_exe().expect("current exe");
    let mut states: Vec<WorkerState> = (0..n_workers)
        .map(|o| WorkerState { offset: o, start: 0, skip: vec![], restarts: 0, merged: Summary::default(), finished: false })
        .collect();
    let mut deaths: Vec<(u64, String, String)> = Vec::new(); // (index, signature, stderr)

    // Workers run concurrently; a dead worker is restarted at once (behind the case that killed it).
    let spawn_worker = |s: &WorkerState| -> (std::process::Child, PathBuf, PathBuf, PathBuf) {
        let cur = scratch.join(format!("w{}.cur", s.offset));
        let out = scratch.join(format!("w{}.json", s.offset));
        let err = scratch.join(format!("w{}.err", s.offset));
        let _ = std::fs::remove_file(&out);
        let _ = std::fs::remove_file(&cur);
        let skip = s.skip.iter().map(|x| x.to_string()).collect::<Vec<_>>().join(",");
        let errf = std::fs::File::create(&err).expect("create stderr file");
        let child = Command::new(&exe)
            .args([
                "worker",
                id,
                tier.name(),
                &seed.to_string(),
                &s.start.to_string(),
                &total.to_string(),
                &n_workers.to_string(),
                &s.offset.to_string(),
                &skip,
            ])
            .arg(&cur)
            .arg(&out)
            .stdin(Stdio::null())
            .stdout(Stdio::null())
            .stderr(Stdio::from(errf))
            .spawn()
            .expect("spawn worker");
        (child, cur, out, err)
    };
    let mut running: Vec<(usize, std::process::Child, PathBuf, PathBuf, PathBuf)> = Vec::new();
    for i in 0..states.len() {
        let (c, cur, out, err) = spawn_worker(&states[i]);
        running.push((i, c, cur, out, err));
    }
    let mut total_deaths = 0u32;
    while !running.is_empty() {
        std::thread::sleep(std::time::Duration::from_millis(20));
        let mut k = 0;
        while k < running.len() {
            let status = match running[k].1.try_wait() {
                Ok(Some(st)) => st,
                _ => {
                    k += 1;
                    continue;
                }
            };
            let (i, _child, cur, out, err) = running.swap_remove(k);
            let stderr = std::fs::read_to_string(&err).unwrap_or_default();
            let summary: Option<Summary> = std::fs::read(&out).ok().and_then(|b| serde_json::from_slice(&b).ok());
            let st = &mut states[i];
            let clean = status.success() && summary.as_ref().map(|s| s.done).unwrap_or(false);
            if clean {
                st.merged.merge(summary.unwrap());
                st.finished = true;
                continue;
            }
            // The worker died. Find out on which case.
            let dead_index = std::fs::read(&cur).ok().and_then(|b| b.get(0..8).map(|s| u64::from_le_bytes(s.try_into().unwrap())));
            let code = status.code();
            if code == Some(EXIT_WALL_LIMIT) {
                inconclusive = Some(format!("wall-clock limit on case {dead_index:?} of worker {}", st.offset));
                st.finished = true;
                continue;
            }
            let sig = if code == Some(EXIT_CPU_LIMIT) { "death:cpu-limit".to_owned() } else { death_signature(&status, &stderr) };
            match dead_index {
                Some(ix) => {
                    total_deaths += 1;
                    deaths.push((ix, sig, stderr.chars().rev().take(600).collect::<String>().chars().rev().collect()));
                    if let Some(s) = summary {
                        st.start = s.next_index;
                        st.merged.merge(Summary { next_index: 0, done: false, ..s });
                    }
                    st.skip.push(ix);
                    st.restarts += 1;
                    // Many deaths mean a systematic defect: the search behind it is pointless.
                    if st.restarts > 3 || total_deaths > 8 {
                        st.finished = true;
                    } else {
                        let (c, cur, out, err) = spawn_worker(st);
                        running.push((i, c, cur, out, err));
                    }
                }
                None => {
                    inconclusive = Some(format!("worker {} died before its first case: {}", st.offset, stderr));
                    st.finished = true;
                }
            }
        }
    }

    let mut total_summary = Summary::default();
    for s in states {
        total_summary.merge(s.merged);
    }

    // 4. Attribute and shrink process deaths in fresh processes.
    let source = TapeSource::new(seed, prop.tape_len());
    let mut seen_death_sigs: BTreeSet<String> = BTreeSet::new();
    let attribution_deadline = Instant::now() + std::time::Duration::from_secs(240);
    let mut attributed: BTreeMap<String, u32> = BTreeMap::new();
    for (ix, worker_sig, stderr) in deaths {
        // Re-running every death of a systematic hang would take hours: attribute the first few
        // of each kind in isolation, count the others.
        let n = attributed.entry(worker_sig.clone()).or_default();
        *n += 1;
        if *n > 3 || Instant::now() > attribution_deadline {
            if let Some(e) = violations.iter_mut().find(|e| e.signature == worker_sig) {
                e.occurrences += 1;
            }
            continue;
        }
        let words = source.tape(ix);
        // Re-run alone: the signature of record comes from the isolated run.
        let (sig, labels, case) = match run_exec(id, tier, seed, ix, &words) {
            ExecVerdict::Died { signature, .. } => (signature, vec![], Value::Null),
            ExecVerdict::Fail(r) => (r.signature.clone().unwrap(), r.labels, r.case),
            ExecVerdict::Pass(_) => {
                // Did not reproduce in isolation: state leaked between cases or resource exhaustion.
                inconclusive = Some(format!("worker died on case {ix} ({worker_sig}) but the case passes alone; stderr tail: {stderr}"));
                continue;
            }
        };
        let f = Failure::new(sig.clone(), format!("process died on case {ix}: {stderr}"));
        if let Some(k) = match_known(&known, id, &f, &labels) {
            *total_summary.excluded_known.entry(k.id.clone()).or_default() += 1;
            continue;
        }
        if !seen_death_sigs.insert(sig.clone()) {
            if let Some(e) = violations.iter_mut().find(|e| e.signature == sig) {
                e.occurrences += 1;
            }
            continue;
        }
        let shrink_deadline = Instant::now() + std::time::Duration::from_secs(90);
        let shrunk = shrink(
            &words,
            |cand| {
                if Instant::now() > shrink_deadline {
                    return false;
                }
                match run_exec(id, tier, seed, ix, cand) {
                    ExecVerdict::Died { signature, .. } => signature == sig,
                    ExecVerdict::Fail(r) => r.signature.as_deref() == Some(sig.as_str()),
                    ExecVerdict::Pass(_) => false,
                }
            },
            250,
        );
        // Render the shrunk case. Rendering happens before the oracle runs, so we ask a
        // render-only subprocess (the property renders, then dies again; we capture via exec
        // with the environment flag that makes properties skip the oracle).
        let case = render_only(id, tier, seed, ix, &shrunk).unwrap_or(case);
        violations.push(FoundFailure {
            index: ix,
            signature: sig,
            detail: f.detail,
            tape: words,
            shrunk_tape: shrunk,
            case,
            occurrences: 1,
        });
    }

    violations.extend(total_summary.failures.clone());

    // 5. Evidence.
    let mut hashes: Vec<u64> = total_summary.nontrivial_hashes.clone();
    hashes.sort_unstable();
    hashes.dedup();
    let wall = t0.elapsed().as_secs_f64();
    let mut coverage = serde_json::Map::new();
    coverage.insert("evaluations".into(), json!(total_summary.evaluations));
    coverage.insert("cases_generated".into(), json!(total_summary.cases));
    coverage.insert("distinct_nontrivial".into(), json!(hashes.len()));
    coverage.insert("rule".into(), json!(prop.rule()));
    coverage.insert("samples".into(), json!(total_summary.samples));
    if let Some(e) = prop.exhaustive(tier) {
        coverage.insert("exhaustive".into(), json!(true));
        coverage.insert("exhaustive_scope".into(), json!(e));
    }
    coverage.insert("histogram".into(), json!(total_summary.histogram));
    coverage.insert("counters".into(), json!(total_summary.counters));
    coverage.insert("maxima".into(), json!(total_summary.maxima));
    coverage.insert("excluded_known".into(), json!(total_summary.excluded_known));
    coverage.insert("known_findings_reconfirmed".into(), json!(known_reconfirmed));
    coverage.insert("workers".into(), json!(n_workers));
    for (k, v) in extra {
        coverage.insert(k, v);
    }
    if let Some(why) = &inconclusive {
        coverage.insert("inconclusive".into(), json!(why));
    }
    let evidence = json!({
        "property_id": id,
        "tier": tier.name(),
        "seed": seed,
        "level": "exploration",
        "coverage": Value::Object(coverage),
        "assumptions": prop.assumptions(),
        "wall_s": (wall * 1000.0).round() / 1000.0,
        "violations": violations.len(),
    });
    let ev_dir = Path::new(&verif_dir()).join("evidence");
    std::fs::create_dir_all(&ev_dir).ok();
    std::fs::write(ev_dir.join(format!("{id}.json")), serde_json::to_string_pretty(&evidence).unwrap() + "\n")
        .expect("write evidence");

    // 6. Verdict.
    let _ = std::fs::remove_dir_all(&scratch);
    println!(
        "{id} {}: {} cases, {} evaluations, {} distinct non-trivial, {} violation(s), {:.1}s",
        tier.name(),
        total_summary.cases,
        total_summary.evaluations,
        hashes.len(),
        violations.len(),
        wall
    );
    if !violations.is_empty() {
        let rdir = Path::new(&verif_dir()).join("replays").join(id);
        std::fs::create_dir_all(&rdir).ok();
        for v in &violations {
            let name = format!("{:016x}.json", fxhash(&v.signature));
            let path = rdir.join(name);
            let replay = json!({
                "property": id,
                "tier": tier.name(),
                "seed": seed,
                "index": v.index,
                "signature": v.signature,
                "detail": v.detail,
                "tape": v.shrunk_tape,
                "original_tape_len": v.tape.len(),
                "case": v.case,
                "occurrences": v.occurrences,
            });
            std::fs::write(&path, serde_json::to_string_pretty(&replay).unwrap() + "\n").ok();
            println!("VIOLATION property={} replay={}", id, path.display());
            println!("  signature: {}", v.signature);
            println!("  detail: {}", v.detail.lines().take(12).collect::<Vec<_>>().join("\n          "));
        }
        return 1;
    }
    if let Some(why) = inconclusive {
        println!("INCONCLUSIVE property={id} {why}");
        return 2;
    }
    0
}

fn fxhash(s: &str) -> u64 {
    use std::hash::{Hash, Hasher};
    let mut h = std::collections::hash_map::DefaultHasher::new();
    s.hash(&mut h);
    h.finish()
}

fn render_only(id: &str, tier: Tier, seed: u64, index: u64, words: &[u32]) -> Option<Value> {
    let exe = std::env::current_exe().ok()?;
    let mut child = Command::new(exe)
        .args(["exec", id, tier.name(), &seed.to_string(), &index.to_string()])
        .env("OALVERIF_RENDER_ONLY", "1")
        .stdin(Stdio::piped())
        .stdout(Stdio::piped())
        .stderr(Stdio::null())
        .spawn()
        .ok()?;
    child.stdin.take()?.write_all(serde_json::to_string(words).ok()?.as_bytes()).ok()?;
    let out = child.wait_with_output().ok()?;
    let text = String::from_utf8_lossy(&out.stdout);
    let line = text.lines().rev().find(|l| l.starts_with('{'))?;
    let r: ExecResult = serde_json::from_str(line).ok()?;
    Some(r.case)
}

pub fn render_only_mode() -> bool {
    std::env::var("OALVERIF_RENDER_ONLY").is_ok()
}

// ------------------------------------------------------------------------------------------
// Replay

pub enum ReplayVerdict {
    Pass,
    Fail(String),
    Unsupported,
}

/// Replays a saved case in a fresh process (so that a crash of oal cannot take the driver down).
pub fn run_replay_subprocess(id: &str, path: &Path) -> ReplayVerdict {
    let exe = std::env::current_exe().expect("current exe");
    let out = Command::new(exe)
        .args(["replay-inner", id])
        .arg(path)
        .stdin(Stdio::null())
        .stdout(Stdio::piped())
        .stderr(Stdio::piped())
        .output()
        .expect("spawn replay");
    let stdout = String::from_utf8_lossy(&out.stdout);
    let stderr = String::from_utf8_lossy(&out.stderr);
    if out.status.success() {
        for l in stdout.lines() {
            if l == "REPLAY-PASS" {
                return ReplayVerdict::Pass;
            }
            if let Some(s) = l.strip_prefix("REPLAY-FAIL ") {
                return ReplayVerdict::Fail(s.to_owned());
            }
            if l == "REPLAY-UNSUPPORTED" {
                return ReplayVerdict::Unsupported;
            }
        }
        ReplayVerdict::Unsupported
    } else {
        ReplayVerdict::Fail(death_signature(&out.status, &stderr))
    }
}

/// Runs in the replay subprocess.
pub fn replay_inner_main(prop: &'static dyn Property, path: &Path) -> i32 {
    install_panic_hook();
    let text = std::fs::read_to_string(path).expect("read replay file");
    let v: Value = serde_json::from_str(&text).expect("replay file is JSON");
    let cpu_limit = prop.cpu_limit_s();
    unsafe {
        let lim = libc::rlimit { rlim_cur: cpu_limit, rlim_max: cpu_limit + 5 };
        libc::setrlimit(libc::RLIMIT_CPU, &lim);
    }
    let handle = std::thread::Builder::new()
        .stack_size(STACK_BYTES)
        .spawn(move || {
            // Preferred: the plain regression check on the saved case (no generator involved).
            let case = if v.get("case").is_some() { v["case"].clone() } else { v.clone() };
            let verdict = match catch(|| prop.replay(&case)) {
                Ok(Some(Ok(()))) => Some(None),
                Ok(Some(Err(f))) => Some(Some(f)),
                Ok(None) => None,
                Err(p) => Some(Some(Failure::new(p.signature(), format!("panic at {}: {}", p.location, p.message)))),
            };
            let verdict = match verdict {
                Some(v) => Some(v),
                None => {
                    // Fall back to the tape, decoded by the property's own generator.
                    v.get("tape").and_then(|t| serde_json::from_value::<Vec<u32>>(t.clone()).ok()).map(|words| {
                        let tier = v.get("tier").and_then(|t| t.as_str()).and_then(Tier::parse).unwrap_or(Tier::Quick);
                        let seed = v.get("seed").and_then(|s| s.as_u64()).unwrap_or(1);
                        let index = v.get("index").and_then(|s| s.as_u64()).unwrap_or(0);
                        let ctx = CaseCtx { tier, index, want_rendered: true, seed };
                        run_guarded(prop, &words, &ctx).failure
                    })
                }
            };
            match verdict {
                Some(None) => println!("REPLAY-PASS"),
                Some(Some(f)) => {
                    println!("REPLAY-FAIL {}", f.signature);
                    println!("{}", f.detail);
                }
                None => println!("REPLAY-UNSUPPORTED"),
            }
        })
        .unwrap();
    match handle.join() {
        Ok(()) => 0,
        Err(_) => 99,
    }
}

/// `./check Cnn --replay path`
pub fn replay_main(prop: &'static dyn Property, path: &Path) -> i32 {
    match run_replay_subprocess(prop.id(), path) {
        ReplayVerdict::Pass => {
            println!("replay of {} passes", path.display());
            0
        }
        ReplayVerdict::Fail(sig) => {
            println!("VIOLATION property={} replay={}", prop.id(), path.display());
            println!("  signature: {sig}");
            1
        }
        ReplayVerdict::Unsupported => {
            println!("INCONCLUSIVE property={} replay file not understood", prop.id());
            2
        }
    }
}
