//! Meaning-preserving rewrites of programs over the generator's AST (C05).

use crate::gen::ast::*;
use crate::tape::Tape;
use std::collections::BTreeSet;

#[derive(Clone, Debug)]
pub struct Site {
    pub module: usize,
    pub stmt: usize,
    pub path: Vec<usize>,
    /// The inherited annotation map is empty at this position by the language's flow rules.
    pub empty_ann: bool,
    /// The keys of the annotations the position inherits (from enclosing annotation nodes and,
    /// at the head of a declaration body, from the declaration).
    pub ann_keys: BTreeSet<String>,
    /// `ann_keys` is all the position inherits (false below the head of a declaration body, which
    /// also inherits what every use of the declaration is annotated with).
    pub known_ann: bool,
    /// Parameters and rec binders in scope at the node, outermost first.
    pub scope: Vec<Bid>,
    pub in_function: bool,
    pub in_rec: bool,
    /// Nothing but parentheses, annotations and `|` lies between the node and the body of a `rec`.
    pub at_rec_head: bool,
}

fn collect(e: &E, site: Site, out: &mut Vec<Site>) {
    out.push(site.clone());
    let kids = e.children();
    for (i, c) in kids.iter().enumerate() {
        let mut s = site.clone();
        s.path.push(i);
        match e {
            E::Paren(_) => {}
            E::Ann(lines, inline, _) => {
                s.empty_ann = false;
                for a in lines.iter().chain(inline.iter()) {
                    s.ann_keys.extend(a.keys().cloned());
                }
            }
            E::Rec(b, _) => {
                s.scope.push(*b);
                s.in_rec = true;
                s.at_rec_head = true;
            }
            E::Op(OpKind::Sum, _) => {
                s.empty_ann = true;
                s.known_ann = true;
                s.ann_keys.clear();
            }
            _ => {
                s.empty_ann = true;
                s.known_ann = true;
                s.ann_keys.clear();
                s.at_rec_head = false;
            }
        }
        collect(c, s, out);
    }
}

pub fn sites(prog: &Program) -> Vec<Site> {
    let mut out = Vec::new();
    for (mi, m) in prog.modules.iter().enumerate() {
        for (si, st) in m.stmts.iter().enumerate() {
            match st {
                Stmt::Let(d) => collect(
                    &d.body,
                    Site { module: mi, stmt: si, path: vec![], empty_ann: false, ann_keys: d.anns.iter().flat_map(|a| a.keys().cloned()).collect(), known_ann: false, scope: d.params.clone(), in_function: !d.params.is_empty(), in_rec: false, at_rec_head: false },
                    &mut out,
                ),
                Stmt::Res(e) => collect(e, Site { module: mi, stmt: si, path: vec![], empty_ann: true, ann_keys: BTreeSet::new(), known_ann: true, scope: vec![], in_function: false, in_rec: false, at_rec_head: false }, &mut out),
                Stmt::Use(_) => {}
            }
        }
    }
    out
}

pub fn node<'a>(prog: &'a Program, s: &Site) -> &'a E {
    let mut e = match &prog.modules[s.module].stmts[s.stmt] {
        Stmt::Let(d) => &d.body,
        Stmt::Res(e) => e,
        Stmt::Use(_) => unreachable!(),
    };
    for i in &s.path {
        e = e.children()[*i];
    }
    e
}

pub fn node_mut<'a>(prog: &'a mut Program, s: &Site) -> &'a mut E {
    let mut e = match &mut prog.modules[s.module].stmts[s.stmt] {
        Stmt::Let(d) => &mut d.body,
        Stmt::Res(e) => e,
        Stmt::Use(_) => unreachable!(),
    };
    for i in &s.path {
        e = e.children_mut().swap_remove(*i);
    }
    e
}

fn free_local_binders(e: &E, prog: &Program) -> BTreeSet<Bid> {
    let mut bound = BTreeSet::new();
    let mut used = BTreeSet::new();
    e.visit(&mut |x| match x {
        E::Rec(b, _) => {
            bound.insert(*b);
        }
        E::Var(v) | E::App(v, _) => {
            if let Some(b) = v.binder {
                if !matches!(prog.binders[b].kind, BinderKind::Decl { .. }) {
                    used.insert(b);
                }
            }
        }
        _ => {}
    });
    used.difference(&bound).copied().collect()
}

fn fresh_name(prog: &Program, prefix: &str) -> String {
    let mut k = prog.binders.len();
    loop {
        let n = format!("{prefix}{k}");
        if !prog.binders.iter().any(|b| b.name == n) && !prog.imports.iter().any(|i| i.qualifier.as_deref() == Some(n.as_str())) {
            return n;
        }
        k += 1;
    }
}

fn dummy_kind() -> K {
    K::S(Tag::Any, Shape::Op)
}

/// 1. Parenthesise any expression.
pub fn parenthesise(prog: &mut Program, t: &mut Tape) -> Option<&'static str> {
    let ss = sites(prog);
    if ss.is_empty() {
        return None;
    }
    let s = &ss[t.choose(ss.len())];
    let n = node_mut(prog, s);
    let inner = std::mem::replace(n, E::Num(0));
    *n = E::Paren(Box::new(inner));
    Some("parenthesise")
}

/// 2a. Name a closed sub-expression with a fresh `let`.
pub fn name_subexpression(prog: &mut Program, t: &mut Tape) -> Option<&'static str> {
    let ss: Vec<Site> = sites(prog)
        .into_iter()
        .filter(|s| s.empty_ann && !s.path.is_empty() && free_local_binders(node(prog, s), prog).is_empty() && !matches!(node(prog, s), E::Var(_)))
        .collect();
    if ss.is_empty() {
        return None;
    }
    let s = ss[t.choose(ss.len())].clone();
    let name = fresh_name(prog, "zn");
    let id = prog.fresh_binder(name, BinderKind::Decl { module: s.module }, dummy_kind());
    let n = node_mut(prog, &s);
    let body = std::mem::replace(n, E::Var(VarRef { binder: Some(id), via: None, free_name: None }));
    // Anywhere among the statements of that module.
    let at = t.choose(prog.modules[s.module].stmts.len() + 1);
    prog.modules[s.module].stmts.insert(at, Stmt::Let(Decl { id, anns: vec![], params: vec![], body }));
    Some(if s.in_function {
        "name-subexpression-in-function"
    } else if s.in_rec {
        "name-subexpression-in-rec"
    } else {
        "name-subexpression"
    })
}

/// Names mentioned without qualifier inside `e` (these could be captured at another site).
fn unqualified_names(e: &E, prog: &Program) -> BTreeSet<String> {
    let mut out = BTreeSet::new();
    e.visit(&mut |x| match x {
        E::Var(v) | E::App(v, _) => {
            let qualified = v.via.map_or(false, |i| prog.imports[i].qualifier.is_some());
            if !qualified {
                match v.binder {
                    Some(b) => {
                        out.insert(prog.binders[b].name.clone());
                    }
                    None => {
                        if let Some(n) = &v.free_name {
                            out.insert(n.clone());
                        }
                    }
                }
            }
        }
        _ => {}
    });
    out
}

/// 2b. Inline a non-recursive, non-reference, parameterless, unannotated declaration at its uses
/// (in its own module, where no local binder would capture a name of its body).
pub fn inline_declaration(prog: &mut Program, t: &mut Tape, recursive: &BTreeSet<Bid>) -> Option<&'static str> {
    let cands: Vec<(usize, Bid)> = prog
        .decls()
        .filter(|(_, d)| d.params.is_empty() && d.anns.is_empty() && !recursive.contains(&d.id) && !prog.binders[d.id].name.starts_with('@'))
        .map(|(mi, d)| (mi, d.id))
        .collect();
    if cands.is_empty() {
        return None;
    }
    let (mi, id) = cands[t.choose(cands.len())];
    let body = prog.decl(id)?.1.body.clone();
    // A declaration mentioning itself is recursive whatever the analysis says.
    let mut selfref = false;
    body.visit(&mut |x| {
        if let E::Var(v) | E::App(v, _) = x {
            if v.binder == Some(id) {
                selfref = true;
            }
        }
    });
    if selfref {
        return None;
    }
    let names = unqualified_names(&body, prog);
    let ss: Vec<Site> = sites(prog)
        .into_iter()
        .filter(|s| s.module == mi && matches!(node(prog, s), E::Var(v) if v.binder == Some(id)))
        .filter(|s| !s.scope.iter().any(|b| names.contains(&prog.binders[*b].name)))
        .collect();
    if ss.is_empty() {
        return None;
    }
    // Rec binders inside the body must stay distinct binders per copy: give each copy fresh ones.
    for s in ss.iter().rev() {
        let mut copy = body.clone();
        refresh_rec_binders(&mut copy, prog);
        *node_mut(prog, s) = E::Paren(Box::new(copy));
    }
    Some("inline-declaration")
}

fn refresh_rec_binders(e: &mut E, prog: &mut Program) {
    let mut map: Vec<(Bid, Bid)> = Vec::new();
    e.visit_mut(&mut |x| {
        if let E::Rec(b, _) = x {
            let nb = prog.fresh_binder(prog.binders[*b].name.clone(), BinderKind::Rec, prog.binders[*b].k.clone());
            map.push((*b, nb));
            *b = nb;
        }
        true
    });
    e.visit_mut(&mut |x| {
        if let E::Var(v) | E::App(v, _) = x {
            if let Some(b) = v.binder {
                if let Some((_, nb)) = map.iter().find(|(o, _)| *o == b) {
                    v.binder = Some(*nb);
                }
            }
        }
        true
    });
}

/// 3a. Wrap a sub-expression in a fresh single-use identity function: `let w p = p; … (w t)`.
pub fn wrap_in_function(prog: &mut Program, t: &mut Tape) -> Option<&'static str> {
    // Positions that inherit nothing, and names under a `title` annotation: `title` is only read
    // when a value is turned into a schema, after the merge that a parameter use makes, so the
    // identity function is not observable there either (argument annotations and use-site
    // annotations must merge key by key).
    // (The name must denote an inlined declaration whose body is a constructor: a `rec`, a
    // reference declaration or an application would store the title in a component.)
    let recursive = crate::refsem::analyse_cycles(prog).recursive;
    let plain_decl = |e: &E| -> bool {
        let E::Var(v) = e else { return false };
        let Some((_, d)) = v.binder.and_then(|b| prog.decl(b)) else { return false };
        let mut body = &d.body;
        // A title of its own would be overridden by the use-site title after the rewrite, but
        // overrides it before (inner annotations win when inlined, use-site ones at a parameter).
        let mut own_title = d.anns.iter().any(|a| a.contains_key("title"));
        loop {
            match body {
                E::Paren(i) => body = i,
                E::Ann(lines, inline, i) => {
                    own_title |= lines.iter().chain(inline.iter()).any(|a| a.contains_key("title"));
                    body = i;
                }
                _ => break,
            }
        }
        !own_title
            && d.params.is_empty()
            && !recursive.contains(&d.id)
            && !prog.binders[d.id].name.starts_with('@')
            && matches!(body, E::Prim(_) | E::Object(_) | E::Array(_) | E::Uri(_, _) | E::Op(_, _) | E::Relation(_, _))
    };
    let titled = |s: &Site| !s.empty_ann && s.known_ann && !s.ann_keys.is_empty() && s.ann_keys.iter().all(|k| k == "title") && plain_decl(node(prog, s));
    let ss: Vec<Site> = sites(prog).into_iter().filter(|s| (s.empty_ann || titled(s)) && !s.path.is_empty()).collect();
    if ss.is_empty() {
        return None;
    }
    // Titled names are few: take one of them half of the time when there is one.
    let ts: Vec<usize> = ss.iter().enumerate().filter(|(_, s)| !s.empty_ann).map(|(i, _)| i).collect();
    let s = if !ts.is_empty() && t.chance(1, 2) { ss[*t.pick_ref(&ts)].clone() } else { ss[t.choose(ss.len())].clone() };
    let under_title = !s.empty_ann;
    let fname = fresh_name(prog, "zw");
    let f = prog.fresh_binder(fname, BinderKind::Decl { module: s.module }, dummy_kind());
    let p = prog.fresh_binder("zp".to_owned(), BinderKind::Param { decl: f }, dummy_kind());
    let n = node_mut(prog, &s);
    let arg = std::mem::replace(n, E::Num(0));
    *n = E::App(VarRef { binder: Some(f), via: None, free_name: None }, vec![arg]);
    let at = t.choose(prog.modules[s.module].stmts.len() + 1);
    prog.modules[s.module]
        .stmts
        .insert(at, Stmt::Let(Decl { id: f, anns: vec![], params: vec![p], body: E::Var(VarRef { binder: Some(p), via: None, free_name: None }) }));
    Some(if under_title {
        "wrap-in-function-under-title"
    } else if s.in_function {
        "wrap-in-function-inside-function"
    } else {
        "wrap-in-function"
    })
}

/// 3b. Abstract a closed sub-expression out of a declaration body:
/// `let d = E[t]` becomes `let w p = E[p]; let d = w t`.
pub fn abstract_out(prog: &mut Program, t: &mut Tape) -> Option<&'static str> {
    let ss: Vec<Site> = sites(prog)
        .into_iter()
        .filter(|s| {
            s.empty_ann
                && !s.path.is_empty()
                && !s.in_function
                // `rec x p` over a parameter is only accepted where the function is applied in its own
                // module (known finding F17): that shape is not produced.
                && !s.at_rec_head
                && matches!(&prog.modules[s.module].stmts[s.stmt], Stmt::Let(d) if !prog.binders[d.id].name.starts_with('@'))
                && free_local_binders(node(prog, s), prog).is_empty()
        })
        .collect();
    if ss.is_empty() {
        return None;
    }
    let s = ss[t.choose(ss.len())].clone();
    let Stmt::Let(d) = &prog.modules[s.module].stmts[s.stmt] else { return None };
    let d_id = d.id;
    let fname = fresh_name(prog, "za");
    let f = prog.fresh_binder(fname, BinderKind::Decl { module: s.module }, dummy_kind());
    let p = prog.fresh_binder("zq".to_owned(), BinderKind::Param { decl: f }, dummy_kind());
    let n = node_mut(prog, &s);
    let arg = std::mem::replace(n, E::Var(VarRef { binder: Some(p), via: None, free_name: None }));
    let Stmt::Let(d) = &mut prog.modules[s.module].stmts[s.stmt] else { return None };
    let fbody = std::mem::replace(&mut d.body, E::App(VarRef { binder: Some(f), via: None, free_name: None }, vec![arg]));
    let _ = d_id;
    let at = t.choose(prog.modules[s.module].stmts.len() + 1);
    prog.modules[s.module].stmts.insert(at, Stmt::Let(Decl { id: f, anns: vec![], params: vec![p], body: fbody }));
    Some("abstract-out")
}

/// 4. Rename a binder consistently: to a fresh name, or (locals) to a name that legally shadows
/// something not mentioned in its scope.
pub fn rename_binder(prog: &mut Program, t: &mut Tape) -> Option<&'static str> {
    if prog.binders.is_empty() {
        return None;
    }
    // Qualifiers too.
    if !prog.imports.is_empty() && t.chance(1, 6) {
        let quals: Vec<usize> = prog.imports.iter().enumerate().filter(|(_, i)| i.qualifier.is_some()).map(|(k, _)| k).collect();
        if !quals.is_empty() {
            let k = quals[t.choose(quals.len())];
            prog.imports[k].qualifier = Some(fresh_name(prog, "zk"));
            return Some("rename-qualifier");
        }
    }
    let b = t.choose(prog.binders.len());
    if prog.binders[b].name.starts_with('@') {
        return None;
    }
    let is_local = !matches!(prog.binders[b].kind, BinderKind::Decl { .. });
    if is_local && t.chance(1, 2) {
        // A shadowing rename: the name of a declaration that the binder's scope does not mention.
        let (mi, scope_body): (usize, E) = match &prog.binders[b].kind {
            BinderKind::Param { decl } => {
                let (mi, d) = prog.decl(*decl)?;
                // Sibling parameters must stay distinct.
                (mi, d.body.clone())
            }
            BinderKind::Rec => {
                let mut found = None;
                for (mi, m) in prog.modules.iter().enumerate() {
                    for st in &m.stmts {
                        let e = match st {
                            Stmt::Let(d) => &d.body,
                            Stmt::Res(e) => e,
                            _ => continue,
                        };
                        e.visit(&mut |x| {
                            if let E::Rec(rb, body) = x {
                                if *rb == b {
                                    found = Some((mi, (**body).clone()));
                                }
                            }
                        });
                    }
                }
                found?
            }
            _ => return None,
        };
        let mentioned = unqualified_names(&scope_body, prog);
        let mut cands: Vec<String> = prog.modules[mi]
            .stmts
            .iter()
            .filter_map(|s| if let Stmt::Let(d) = s { Some(prog.binders[d.id].name.clone()) } else { None })
            .filter(|n| !n.starts_with('@') && !mentioned.contains(n))
            .collect();
        if !mentioned.contains("concat") {
            cands.push("concat".to_owned());
        }
        // The names of other functions' parameters and of other rec binders are as good as any.
        for (ob, other) in prog.binders.iter().enumerate() {
            if ob != b && !matches!(other.kind, BinderKind::Decl { .. }) && !mentioned.contains(&other.name) {
                cands.push(other.name.clone());
            }
        }
        // Not the name of a sibling parameter, nor of a binder nested inside the scope (it would capture uses of ours).
        let mut inner: BTreeSet<String> = BTreeSet::new();
        scope_body.visit(&mut |x| {
            if let E::Rec(rb, _) = x {
                inner.insert(prog.binders[*rb].name.clone());
            }
        });
        if let BinderKind::Param { decl } = &prog.binders[b].kind {
            if let Some((_, d)) = prog.decl(*decl) {
                for p in &d.params {
                    inner.insert(prog.binders[*p].name.clone());
                }
            }
        }
        cands.retain(|n| !inner.contains(n));
        if cands.is_empty() {
            return None;
        }
        let n = cands[t.choose(cands.len())].clone();
        prog.binders[b].name = n;
        return Some("rename-to-shadowing-name");
    }
    prog.binders[b].name = fresh_name(prog, "zr");
    Some(if is_local { "rename-local-fresh" } else { "rename-declaration-fresh" })
}

/// 5. Permute top-level statements (resources keep their relative order).
pub fn permute_statements(prog: &mut Program, t: &mut Tape) -> Option<&'static str> {
    let mi = t.choose(prog.modules.len());
    let stmts = std::mem::take(&mut prog.modules[mi].stmts);
    if stmts.len() < 2 {
        prog.modules[mi].stmts = stmts;
        return None;
    }
    let (res, mut other): (Vec<Stmt>, Vec<Stmt>) = stmts.into_iter().partition(|s| matches!(s, Stmt::Res(_)));
    for i in (1..other.len()).rev() {
        let j = t.choose(i + 1);
        other.swap(i, j);
    }
    let mut out = Vec::new();
    let (mut ri, mut oi) = (res.into_iter().peekable(), other.into_iter().peekable());
    loop {
        match (ri.peek().is_some(), oi.peek().is_some()) {
            (true, true) => {
                if t.chance(1, 2) {
                    out.push(ri.next().unwrap())
                } else {
                    out.push(oi.next().unwrap())
                }
            }
            (true, false) => out.push(ri.next().unwrap()),
            (false, true) => out.push(oi.next().unwrap()),
            (false, false) => break,
        }
    }
    prog.modules[mi].stmts = out;
    Some("permute-statements")
}

/// 7. Move a dependency-closed group of declarations of the main module into a new imported module.
pub fn move_to_module(prog: &mut Program, t: &mut Tape) -> Option<&'static str> {
    let mi = 0usize;
    let decls: Vec<Bid> = prog.modules[mi].stmts.iter().filter_map(|s| if let Stmt::Let(d) = s { Some(d.id) } else { None }).collect();
    if decls.is_empty() {
        return None;
    }
    let local: BTreeSet<Bid> = decls.iter().copied().collect();
    // mentions of each declaration; a declaration that reaches anything through an import cannot move
    let mut mentions: std::collections::BTreeMap<Bid, BTreeSet<Bid>> = Default::default();
    let mut uses_import: BTreeSet<Bid> = BTreeSet::new();
    for s in &prog.modules[mi].stmts {
        if let Stmt::Let(d) = s {
            let mut ms = BTreeSet::new();
            d.body.visit(&mut |x| {
                if let E::Var(v) | E::App(v, _) = x {
                    if v.via.is_some() {
                        uses_import.insert(d.id);
                    }
                    if let Some(b) = v.binder {
                        if local.contains(&b) {
                            ms.insert(b);
                        }
                    }
                }
            });
            mentions.insert(d.id, ms);
        }
    }
    let seed = decls[t.choose(decls.len())];
    let mut group: BTreeSet<Bid> = BTreeSet::new();
    let mut stack = vec![seed];
    while let Some(b) = stack.pop() {
        if group.insert(b) {
            stack.extend(mentions[&b].iter().copied());
        }
    }
    if group.iter().any(|b| uses_import.contains(b)) {
        return None;
    }
    let new_mi = prog.modules.len();
    let file = format!("mv{new_mi}.oal");
    let stmts = std::mem::take(&mut prog.modules[mi].stmts);
    let (moved, kept): (Vec<Stmt>, Vec<Stmt>) = stmts.into_iter().partition(|s| matches!(s, Stmt::Let(d) if group.contains(&d.id)));
    prog.modules[mi].stmts = kept;
    prog.modules.push(Module { file: file.clone(), stmts: moved });
    for b in &group {
        prog.binders[*b].kind = BinderKind::Decl { module: new_mi };
    }
    let qualified = t.chance(1, 2);
    let qualifier = if qualified { Some(fresh_name(prog, "zm")) } else { None };
    prog.imports.push(Import { module: mi, target: new_mi, path: if t.chance(1, 2) { file } else { format!("./{file}") }, qualifier });
    let imp = prog.imports.len() - 1;
    let at = t.choose(prog.modules[mi].stmts.len() + 1);
    prog.modules[mi].stmts.insert(at, Stmt::Use(imp));
    // Mentions from what stays in the main module now go through the import.
    for s in prog.modules[mi].stmts.iter_mut() {
        let e = match s {
            Stmt::Let(d) => &mut d.body,
            Stmt::Res(e) => e,
            Stmt::Use(_) => continue,
        };
        e.visit_mut(&mut |x| {
            if let E::Var(v) | E::App(v, _) = x {
                if let Some(b) = v.binder {
                    if group.contains(&b) {
                        v.via = Some(imp);
                    }
                }
            }
            true
        });
    }
    Some(if qualified { "move-to-module-qualified" } else { "move-to-module-unqualified" })
}

/// 4'. Rename every parameter and rec binder to a name of its own (removes all shadowing at once).
pub fn rename_all_locals(prog: &mut Program, _t: &mut Tape) -> Option<&'static str> {
    let mut any = false;
    for b in 0..prog.binders.len() {
        if !matches!(prog.binders[b].kind, BinderKind::Decl { .. }) {
            prog.binders[b].name = format!("zl{b}");
            any = true;
        }
    }
    if any {
        Some("rename-all-locals-fresh")
    } else {
        None
    }
}
