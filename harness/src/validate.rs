//! R-val: an independent structural validator of emitted OpenAPI documents, written against the
//! OpenAPI 3.0 text, over the YAML re-parsed into a generic value.

use serde_json::Value;
use std::collections::BTreeMap;

#[derive(Debug, Default)]
pub struct Facts {
    pub refs: usize,
    pub path_variables: usize,
    pub operations: usize,
    /// Duplicate operationIds that both follow the synthesis rule (method-segment-…): F10.
    pub synthesised_id_collision: bool,
    /// Duplicate operationIds where one was written by the user: outside the domain.
    pub explicit_id_duplicate: bool,
    /// The duplicated ids that do not all follow the synthesis rule, with their uses.
    pub other_duplicates: Vec<(String, String)>,
}

fn resolve_pointer<'a>(doc: &'a Value, reference: &str) -> Option<&'a Value> {
    let p = reference.strip_prefix('#')?;
    if p.is_empty() {
        return Some(doc);
    }
    let mut cur = doc;
    for tok in p.strip_prefix('/')?.split('/') {
        let tok = tok.replace("~1", "/").replace("~0", "~");
        cur = match cur {
            Value::Object(m) => m.get(&tok)?,
            Value::Array(a) => a.get(tok.parse::<usize>().ok()?)?,
            _ => return None,
        };
    }
    Some(cur)
}

fn walk_refs(doc: &Value, v: &Value, path: &str, facts: &mut Facts) -> Result<(), (String, String)> {
    match v {
        Value::Object(m) => {
            for (k, x) in m {
                // A string under a `$ref` key is a reference; a property *named* `$ref` has a schema (a map) as its value.
                if k == "$ref" {
                    if let Value::String(s) = x {
                        facts.refs += 1;
                        if resolve_pointer(doc, s).is_none() {
                            return Err(("c03:dangling-ref".to_owned(), format!("{path}: $ref {s:?} does not resolve inside the document")));
                        }
                        continue;
                    }
                }
                walk_refs(doc, x, &format!("{path}/{k}"), facts)?;
            }
            Ok(())
        }
        Value::Array(a) => {
            for (i, x) in a.iter().enumerate() {
                walk_refs(doc, x, &format!("{path}/{i}"), facts)?;
            }
            Ok(())
        }
        _ => Ok(()),
    }
}

fn path_variables(key: &str) -> Vec<String> {
    let mut out = Vec::new();
    let mut rest = key;
    while let Some(i) = rest.find('{') {
        if let Some(j) = rest[i..].find('}') {
            out.push(rest[i + 1..i + j].to_owned());
            rest = &rest[i + j + 1..];
        } else {
            break;
        }
    }
    out
}

const METHODS: [&str; 8] = ["get", "put", "post", "patch", "delete", "options", "head", "trace"];

fn synthesised_id(method: &str, path_key: &str) -> String {
    let mut parts = vec![method.to_owned()];
    for seg in path_key.split('/').skip(1) {
        let seg = seg.trim_start_matches('{').trim_end_matches('}');
        parts.push(if seg.is_empty() { "root".to_owned() } else { seg.to_lowercase() });
    }
    parts.join("-")
}

/// Validates the paths and references of an emitted document.
pub fn validate(doc: &Value) -> Result<Facts, (String, String)> {
    let mut facts = Facts::default();
    walk_refs(doc, doc, "", &mut facts)?;
    let mut ids: BTreeMap<String, Vec<(String, String)>> = BTreeMap::new();
    if let Some(paths) = doc.get("paths").and_then(|p| p.as_object()) {
        for (key, item) in paths {
            if !key.starts_with("x-") && !key.starts_with('/') {
                return Err(("c03:path-key".to_owned(), format!("path key {key:?} does not start with a slash")));
            }
            let vars = path_variables(key);
            facts.path_variables += vars.len();
            let Some(item) = item.as_object() else { continue };
            let item_params: Vec<&Value> = item.get("parameters").and_then(|p| p.as_array()).map(|a| a.iter().collect()).unwrap_or_default();
            let mut ops: Vec<(&str, Option<&Value>)> = Vec::new();
            for m in METHODS {
                if let Some(op) = item.get(m) {
                    ops.push((m, Some(op)));
                }
            }
            if ops.is_empty() {
                ops.push(("", None));
            }
            for (method, op) in ops {
                let mut params: Vec<&Value> = item_params.clone();
                if let Some(op) = op {
                    facts.operations += 1;
                    if let Some(ps) = op.get("parameters").and_then(|p| p.as_array()) {
                        params.extend(ps.iter());
                    }
                    if let Some(id) = op.get("operationId").and_then(|x| x.as_str()) {
                        ids.entry(id.to_owned()).or_default().push((method.to_owned(), key.clone()));
                    }
                    // (3) response keys
                    match op.get("responses").and_then(|r| r.as_object()) {
                        None => return Err(("c03:no-responses".to_owned(), format!("{key} {method}: an operation without responses"))),
                        Some(rs) => {
                            for code in rs.keys() {
                                let ok = code == "default"
                                    || code.starts_with("x-")
                                    || (code.len() == 3
                                        && (code.parse::<u32>().map_or(false, |n| (100..=599).contains(&n))
                                            || (code.ends_with("XX") && matches!(code.as_bytes()[0], b'1'..=b'5'))));
                                if !ok {
                                    return Err(("c03:response-key".to_owned(), format!("{key} {method}: response key {code:?} is neither default, 100-599 nor 1XX-5XX")));
                                }
                            }
                        }
                    }
                }
                // (2) path variables <-> path parameters
                let mut path_params: Vec<(&str, bool)> = Vec::new();
                for p in &params {
                    if p.get("in").and_then(|x| x.as_str()) == Some("path") {
                        let name = p.get("name").and_then(|x| x.as_str()).unwrap_or("");
                        let required = p.get("required").and_then(|x| x.as_bool()).unwrap_or(false);
                        path_params.push((name, required));
                    }
                }
                let mut want: Vec<&str> = vars.iter().map(|s| s.as_str()).collect();
                want.sort();
                let mut got: Vec<&str> = path_params.iter().map(|(n, _)| *n).collect();
                got.sort();
                if want != got {
                    return Err((
                        "c03:path-parameters".to_owned(),
                        format!("{key} {method}: the path has variables {want:?} but the path parameters are {got:?}"),
                    ));
                }
                if let Some((n, _)) = path_params.iter().find(|(_, r)| !*r) {
                    return Err(("c03:path-parameter-not-required".to_owned(), format!("{key} {method}: path parameter {n:?} is not required")));
                }
            }
        }
    }
    // (4) operationIds
    for (id, uses) in &ids {
        if uses.len() > 1 {
            let all_synth = uses.iter().all(|(m, k)| synthesised_id(m, k) == *id);
            if all_synth {
                facts.synthesised_id_collision = true;
                return Err(("c03:duplicate-operation-id".to_owned(), format!("operationId {id:?} is used by {uses:?}")));
            }
            facts.explicit_id_duplicate = true;
            facts.other_duplicates.push((id.clone(), format!("{uses:?}")));
        }
    }
    Ok(facts)
}
