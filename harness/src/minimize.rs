//! Source-level minimisation of a failing source set (after the tape has been shrunk):
//! drop modules' statements, then single tokens, while the failure signature stays the same.

use crate::gen::text::split_tokens;
use crate::oal::Sources;

/// Splits a module text into statements (token groups ending with `;` at bracket depth 0).
fn statements(text: &str) -> Vec<Vec<String>> {
    let toks = split_tokens(text);
    let mut out: Vec<Vec<String>> = Vec::new();
    let mut cur: Vec<String> = Vec::new();
    let mut depth = 0i32;
    for t in toks {
        match t.as_str() {
            "{" | "(" | "[" | "<" => depth += 1,
            "}" | ")" | "]" | ">" => depth -= 1,
            _ => {}
        }
        let end = t == ";" && depth <= 0;
        cur.push(t);
        if end {
            out.push(std::mem::take(&mut cur));
            depth = 0;
        }
    }
    if !cur.is_empty() {
        out.push(cur);
    }
    out
}

fn join(stmts: &[Vec<String>]) -> String {
    let mut s = String::new();
    for st in stmts {
        for t in st {
            s.push_str(t);
            if !t.ends_with('\n') {
                s.push(' ');
            }
        }
        s.push('\n');
    }
    s
}

pub fn minimize_sources(start: &Sources, mut still_fails_inner: impl FnMut(&Sources) -> bool, budget: usize) -> Sources {
    // Wall-clock bound on the whole minimisation: later candidates count as passing.
    let deadline = std::time::Instant::now() + std::time::Duration::from_secs(25);
    let mut still_fails = move |s: &Sources| std::time::Instant::now() <= deadline && still_fails_inner(s);
    let mut best = start.clone();
    let mut calls = 0usize;
    let names: Vec<String> = best.files.keys().cloned().collect();
    let mut progress = true;
    while progress && calls < budget {
        progress = false;
        for name in &names {
            // 1. statements
            let mut stmts = statements(&best.files[name]);
            let mut i = 0;
            while i < stmts.len() && calls < budget {
                let mut cand_stmts = stmts.clone();
                cand_stmts.remove(i);
                let mut cand = best.clone();
                cand.files.insert(name.clone(), join(&cand_stmts));
                calls += 1;
                if still_fails(&cand) {
                    best = cand;
                    stmts = cand_stmts;
                    progress = true;
                } else {
                    i += 1;
                }
            }
            // 2. annotation tokens and single tokens inside statements
            let mut si = 0;
            while si < stmts.len() && calls < budget {
                let mut ti = 0;
                while ti < stmts[si].len() && calls < budget {
                    let tok = &stmts[si][ti];
                    // Only try tokens whose removal can leave a well-formed program reasonably often.
                    let worth = tok.starts_with('#') || tok.starts_with('`') || tok == "!" || tok == "?" || tok.starts_with("//");
                    if !worth {
                        ti += 1;
                        continue;
                    }
                    let mut cand_stmts = stmts.clone();
                    cand_stmts[si].remove(ti);
                    let mut cand = best.clone();
                    cand.files.insert(name.clone(), join(&cand_stmts));
                    calls += 1;
                    if still_fails(&cand) {
                        best = cand;
                        stmts = cand_stmts;
                        progress = true;
                    } else {
                        ti += 1;
                    }
                }
                si += 1;
            }
        }
        // 3. bracketed groups: replace `{ … }` / `[ … ]` / `( … )` / `< … >` contents by nothing
        for name in &names {
            let mut stmts = statements(&best.files[name]);
            for si in 0..stmts.len() {
                let mut ti = 0;
                while ti < stmts[si].len() && calls < budget {
                    let open = stmts[si][ti].as_str();
                    let close = match open {
                        "{" => "}",
                        "[" => "]",
                        "(" => ")",
                        "<" => ">",
                        _ => {
                            ti += 1;
                            continue;
                        }
                    };
                    // find the matching close
                    let mut depth = 0;
                    let mut end = None;
                    for (k, t) in stmts[si].iter().enumerate().skip(ti) {
                        if t == open {
                            depth += 1;
                        } else if t == close {
                            depth -= 1;
                            if depth == 0 {
                                end = Some(k);
                                break;
                            }
                        }
                    }
                    let Some(end) = end else {
                        ti += 1;
                        continue;
                    };
                    if end > ti + 1 {
                        let replacements: Vec<Vec<String>> = match open {
                            "{" => vec![vec!["{".into(), "}".into()]],
                            "[" => vec![vec!["[".into(), "num".into(), "]".into()]],
                            "(" => vec![vec!["num".into()], vec!["{".into(), "}".into()]],
                            _ => vec![vec!["<".into(), ">".into()], vec!["<".into(), "{".into(), "}".into(), ">".into()]],
                        };
                        let mut replaced = false;
                        for rep in replacements {
                            let mut cand_stmts = stmts.clone();
                            cand_stmts[si].splice(ti..=end, rep);
                            let mut cand = best.clone();
                            cand.files.insert(name.clone(), join(&cand_stmts));
                            calls += 1;
                            if still_fails(&cand) {
                                best = cand;
                                stmts = cand_stmts;
                                progress = true;
                                replaced = true;
                                break;
                            }
                        }
                        if replaced {
                            continue;
                        }
                    }
                    ti += 1;
                }
            }
        }
        // 4. whole non-main files (their `use` statements go through step 1)
        for name in &names {
            if *name == best.main || !best.files.contains_key(name) {
                continue;
            }
            let mut cand = best.clone();
            cand.files.insert(name.clone(), String::new());
            calls += 1;
            if cand.files[name] != best.files[name] && still_fails(&cand) {
                best = cand;
                progress = true;
            }
        }
    }
    best
}
