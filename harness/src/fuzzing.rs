//! Entry points for the libFuzzer targets under /verif/fuzz. Each oracle aborts the process on a
//! genuine failure (so that libFuzzer keeps the input) and returns quietly otherwise.

use crate::engine::{install_panic_hook, load_known_findings, match_known, CaseReport, KnownFinding};
use crate::gen::ast::{render_plain, to_sources};
use crate::gen::typed::{Gen, GenCfg};
use crate::oal::Sources;
use crate::tape::Tape;
use std::sync::OnceLock;

static KNOWN: OnceLock<Vec<KnownFinding>> = OnceLock::new();

pub fn init() {
    static ONCE: std::sync::Once = std::sync::Once::new();
    ONCE.call_once(|| {
        // oal_wasm installs its hook once; ours must come last (and replaces libFuzzer's abort hook:
        // panics inside oal are caught by the oracles and turned into failures with a signature).
        let _ = oal_wasm::compile("");
        install_panic_hook();
        KNOWN.set(load_known_findings()).ok();
    });
}

fn words(data: &[u8]) -> Vec<u32> {
    data.chunks(4)
        .map(|c| {
            let mut b = [0u8; 4];
            b[..c.len()].copy_from_slice(c);
            u32::from_le_bytes(b)
        })
        .collect()
}

fn verdict(prop: &str, r: &CaseReport, what: &dyn Fn() -> String) {
    if let Some(f) = &r.failure {
        if match_known(KNOWN.get().map(|v| v.as_slice()).unwrap_or(&[]), prop, f, &r.labels).is_some() {
            return;
        }
        eprintln!("FUZZ-FAILURE property={prop} signature={}\n{}\n--- input ---\n{}", f.signature, f.detail, what());
        std::process::abort();
    }
}

pub fn frontend_oracle(text: &str) {
    // Bracket nesting beyond the property's bound is outside the domain.
    let mut depth = 0i32;
    let mut max = 0i32;
    for c in text.chars() {
        match c {
            '(' | '[' | '{' | '<' => {
                depth += 1;
                max = max.max(depth)
            }
            ')' | ']' | '}' | '>' => depth -= 1,
            _ => {}
        }
    }
    if max > 200 {
        return;
    }
    let mut r = CaseReport::default();
    crate::props::c04::check_in_process(text, &mut r);
    verdict("C04", &r, &|| text.to_owned());
    let mut r = CaseReport::default();
    crate::props::c11::check_sources(&Sources::single(text), &mut r);
    verdict("C11", &r, &|| text.to_owned());
}

pub fn typed_oracle(data: &[u8]) {
    let w = words(data);
    let mut tape = Tape::new(w);
    let cfg = if tape.chance(1, 2) { GenCfg::strict() } else { GenCfg::full() };
    let strict = cfg.strict;
    let (prog, _) = Gen::new(&mut tape, cfg).program();
    let sources = to_sources(&render_plain(&prog));
    let show = || serde_json::to_string_pretty(&sources.to_json()).unwrap();
    let mut r = CaseReport::default();
    crate::props::c01::check_sources(&sources, &mut r);
    verdict("C01", &r, &show);
    if strict {
        let mut r = CaseReport::default();
        crate::props::c02::check_program(&prog, &sources, &mut r);
        verdict("C02", &r, &show);
    }
    let mut r = CaseReport::default();
    crate::props::c03::check_document(&sources, None, &mut r);
    verdict("C03", &r, &show);
}

pub fn unify_oracle(data: &[u8]) {
    let w = words(data);
    let mut tape = Tape::new(w);
    let mut r = CaseReport::default();
    let shown = crate::props::c07::fuzz_system(&mut tape, &mut r);
    verdict("C07", &r, &|| shown.clone());
}
