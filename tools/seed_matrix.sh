#!/bin/bash
# Runs every confirmed seeded change against the quick check of the property it breaks and
# records the outcome in its meta.json (detected_by / signature / seconds).
cd "$(dirname "$0")/.."
for d in seeded/*/; do
  n=$(basename "$d"); id=${n%%-*}
  [ -n "${1:-}" ] && [[ "$n" != $1 ]] && continue
  s=$(date +%s)
  out=$(timeout 1500 tools/try_seed.sh "$d/patch.diff" "$id" quick 2>&1); rc=$?
  e=$(date +%s)
  sig=$(echo "$out" | grep -m1 "signature:" | sed 's/.*signature: //')
  python3 - "$d/meta.json" "$id" "$rc" "$((e-s))" "$sig" <<'PY'
import json,sys
p,pid,rc,secs,sig=sys.argv[1:6]
m=json.load(open(p))
m['detected_by']={"check":pid,"tier":"quick","detected":rc=="1","exit":int(rc),"seconds":int(secs),"first_signature":sig}
json.dump(m,open(p,'w'),indent=1)
PY
  echo "$n rc=$rc $((e-s))s $sig"
done
