import json,glob,os,re
p='DESIGN.md'
s=open(p).read()
needs={
 'C01-A':'a function of >= 2 parameters applied to too few arguments, declared before its use, the missing parameter used in the body',
 'C01-B':'a recursive schema used bare, inside its own definition, as a transfer range / domain / `::` operand',
 'C02-A':'an applied function whose parameter use and argument carry the same annotation key with different values',
 'C02-B':'an explicit `@` reference to an atomic schema (num, str, URI, relation)',
 'C03-A':'a status that is exactly 600 (literal or through a parameter)',
 'C03-B':'a URI template variable that is explicitly optional (`?` mark or postfix)',
 'C04-A':'as C01-A, reached from text through the front ends',
 'C04-B':'brackets nested >= 12 deep with a syntax error at the innermost level (failed parses no longer memoised)',
 'C05-A':'a parameter or rec binder named like a top-level declaration and used in its body',
 'C05-B':'a nested application of a >= 2-parameter function whose later argument names a caller parameter spelled like an earlier callee parameter',
 'C06-A':'a function of >= 2 parameters whose arguments have evaluation side effects (first use of @refs, rec); differs per hash seed',
 'C06-B':'a rec evaluated inside an application, compiled a second time in the same process (fresh processes agree)',
 'C07-A':'a tag variable occurring in some but not all parameters of a >= 2-parameter function tag',
 'C07-B':'two recursive groups in one module, a valid one visited before an ill-formed one',
 'C08-A':'as C05-B',
 'C08-B':'a rec binder whose name is used again outside the rec expression',
 'C09-A':'two modules each with a recursive schema at the same node index, both reachable',
 'C09-B':'as C07-B; the accepted ill-formed cycle overflows the stack when applied',
 'C10-A':'a module imported again while still queued (triangle in one `use` order, duplicate or aliased spellings)',
 'C10-B':'a non-main module in another directory than main with a relative `use` of its own',
 'C11-A':'a module text starting with a byte order mark',
 'C11-B':'a literal URI template directly followed by the postfix `?`',
 'C12-A':'ill-formed input inside nesting (failed parses not memoised)',
 'C12-B':'more than 512 memo hits in one parse (long flat input, ~170 declarations)',
 'C12-C':'a long flat prefix (~2000 declarations) followed by moderate nesting',
 'C13-A':'a program that fails only in evaluation (status out of range, malformed annotation, duplicate @name)',
 'C13-B':'a config file naming a target combined with `-t`',
 'C14-A':'a base with schemas of its own and a program without any `@` reference',
 'C14-B':'a base without `servers` (or with an empty list)',
 'C15-A':'an incremental edit at end of file of a document whose last character is multi-byte',
 'C15-B':'an unsaved edit that breaks compilation, then didClose, observed before any other open or change',
 'C16-A':'a position beyond the last line of a text not ending in a newline, column smaller than the last line',
 'C16-B':'a span containing a line break and starting at a column > 0',
 'C17-A':"two modules with the same structure up to a declaration, the other module's declaration used somewhere",
 'C17-B':'one declaration used from two modules at exactly the same line/column range',
 'C18-A':'rename requested on a use in the importing module of a declaration of another module',
 'C18-B':'an occurrence of the renamed identifier as first token at column 0 of a line other than the first',
}
rows=[]
for d in sorted(glob.glob('seeded/*/')):
    n=os.path.basename(d.rstrip('/'))
    m=json.load(open(d+'meta.json'))
    diff=open(d+'patch.diff').read()
    files=sorted(set(re.findall(r'^\+\+\+ b/(\S+)',diff,re.M)))
    det=m.get('detected_by') or {}
    m['needs_to_manifest']=needs.get(n,m.get('needs_to_manifest'))
    json.dump(m,open(d+'meta.json','w'),indent=1)
    sig=(det.get('first_signature') or '')[:70].replace('|','\\|')
    rows.append(f"| {n} | `{', '.join(f.replace('oal-','').replace('/src/','/') for f in files)}` | {needs.get(n,'')} | {n[:3]} quick: `{sig}` ({det.get('seconds')} s) |")
table='\n'.join(rows)
new=open('tools/design11_body.md').read().replace('@@TABLE@@',table)
marker='\n---------------------------------------------------------------------------------------\n\n## Appendix A.'
if '## 11. As built' in s:
    start=s.index('\n---------------------------------------------------------------------------------------\n\n## 11. As built')
    s=s[:start]+new+s[s.index(marker):]
else:
    i=s.index(marker)
    s=s[:i]+new+s[i:]
open(p,'w').write(s)
print(len(s.splitlines()))
