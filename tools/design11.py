import json,glob,os,re
p='DESIGN.md'
s=open(p).read()
needs={
 'C01-A':'a function of >= 2 parameters applied to too few arguments, declared before its use, the missing parameter used in the body',
 'C01-B':'a recursive schema used bare, inside its own definition, as a transfer range / domain / `::` operand',
 'C02-A':'an applied function whose parameter use and argument carry the same annotation key with different values',
 'C02-B':'an explicit `@` reference to an atomic schema (num, str, URI, relation)',
 'C03-A':'a status that is exactly 600 (literal or through a parameter)',
 'C03-B':'a URI template variable that is explicitly optional (`?` mark or postfix)',
 'C04-A':'as C01-A, reached from text through the front ends',
 'C04-B':'brackets nested >= 12 deep with a syntax error at the innermost level (failed parses no longer memoised)',
 'C05-A':'a parameter or rec binder named like a top-level declaration and used in its body',
 'C05-B':'a nested application of a >= 2-parameter function whose later argument names a caller parameter spelled like an earlier callee parameter',
 'C06-A':'a function of >= 2 parameters whose arguments have evaluation side effects (first use of @refs, rec); differs per hash seed',
 'C06-B':'a rec evaluated inside an application, compiled a second time in the same process (fresh processes agree)',
 'C07-A':'a tag variable occurring in some but not all parameters of a >= 2-parameter function tag',
 'C07-B':'two recursive groups in one module, a valid one visited before an ill-formed one',
 'C08-A':'as C05-B',
 'C08-B':'a rec binder whose name is used again outside the rec expression',
 'C09-A':'two modules each with a recursive schema at the same node index, both reachable',
 'C09-B':'as C07-B; the accepted ill-formed cycle overflows the stack when applied',
 'C10-A':'a module imported again while still queued (triangle in one `use` order, duplicate or aliased spellings)',
 'C10-B':'a non-main module in another directory than main with a relative `use` of its own',
 'C11-A':'a module text starting with a byte order mark',
 'C11-B':'a literal URI template directly followed by the postfix `?`',
 'C12-A':'ill-formed input inside nesting (failed parses not memoised)',
 'C12-B':'more than 512 memo hits in one parse (long flat input, ~170 declarations)',
 'C12-C':'a long flat prefix (~2000 declarations) followed by moderate nesting',
 'C13-A':'a program that fails only in evaluation (status out of range, malformed annotation, duplicate @name)',
 'C13-B':'a config file naming a target combined with `-t`',
 'C14-A':'a base with schemas of its own and a program without any `@` reference',
 'C14-B':'a base without `servers` (or with an empty list)',
 'C15-A':'an incremental edit at end of file of a document whose last character is multi-byte',
 'C15-B':'an unsaved edit that breaks compilation, then didClose, observed before any other open or change',
 'C16-A':'a position beyond the last line of a text not ending in a newline, column smaller than the last line',
 'C16-B':'a span containing a line break and starting at a column > 0',
 'C17-A':"two modules with the same structure up to a declaration, the other module's declaration used somewhere",
 'C17-B':'one declaration used from two modules at exactly the same line/column range',
 'C18-A':'rename requested on a use in the importing module of a declaration of another module',
 'C18-B':'an occurrence of the renamed identifier as first token at column 0 of a line other than the first',
 'C01-D':'a declaration cycle made only of aliases (`let a = b; let b = a;`, `rec x x`) whose kind is forced to a schema elsewhere, reachable from a resource',
 'C01-E':'a recursive declaration whose recursive use comes after an inline `rec` in the same declaration',
 'C02-D':'a query / header property whose *schema* carries `required: true` while the property itself is optional',
 'C02-E':'a second use of a reference (@ or recursive) declaration with use-site annotations of its own',
 'C03-D':'a path variable and a query property of the same URI with the same name',
 'C03-E':'a chain of two alias declarations (`@a = @b; @b = @c`, or on a declaration cycle) and a use of the outer one',
 'C04-D':'as C01-E, reached from text',
 'C04-E':'didOpen with unsaved text, didClose, the file on disk has an error after a multi-byte character that a stale line start falls into',
 'C05-D':'two modules each with an implicit recursive component at the same node index',
 'C05-E':'an inlined declaration used with value-level annotations at the use site (minimum, pattern, description of a content ...)',
 'C06-D':'a `tags` / `enum` annotation with a repeated value and at least two distinct ones',
 'C06-E':'two different programs compiled one after the other in one process, an annotated declaration at the same node index',
 'C07-D':'one kind variable meeting a URI and a relation in different declarations, the URI use first',
 'C07-E':'an import of a function with an unresolved kind variable and a local declaration with the same variable number',
 'C08-D':'an unqualified import and a local declaration of the same name (must be rejected), or a `use` after the first use of an imported name',
 'C08-E':'a function body naming a module declaration, applied from inside a function / rec whose binder has the same name',
 'C09-D':'a function whose body has a rec depending on a parameter with a second rec inside that mentions only the outer rec variable, applied twice',
 'C09-E':'two consecutive alias declarations on a declaration cycle',
 'C10-D':'a `use` statement after a declaration or resource',
 'C10-E':'the same file imported twice in one module under different qualifiers, a name used through the second import',
 'C11-D':'an identifier followed by `.` not followed by an identifier (`a. ;`, `m.str`)',
 'C11-E':'an annotation that is not YAML with a multi-byte character before the position of the YAML error',
 'C12-D':'parentheses directly nested in parentheses >= 4 deep',
 'C12-E':'inputs of tens of thousands of tokens (only CPU time shows it, not the read counter)',
 'C13-D':'a target file that exists and is longer than the new document',
 'C13-E':'a source whose only errors are lexical',
 'C14-D':'a base and a program with a `tags` annotation naming a tag the base does not declare',
 'C14-E':'a base declaring `openapi: 3.0.0` .. `3.0.2`',
 'C15-D':'one didChange with two ranged changes in document order, the first changing the length',
 'C15-E':'didOpen of a file the server already read from disk, with another text',
 'C16-D':'an offset at the end of a text that ends with a line break',
 'C16-E':'edit without saving, conversion, didClose, later conversion in that file',
 'C17-D':'a multi-line binding construct starting at a column > 0',
 'C17-E':'didOpen + unsaved change of the binding relation (or layout), evaluation, didClose, then a request',
 'C18-D':'two modules using the same qualifier name, rename of the qualifier in one',
 'C18-E':'prepareRename with the cursor on the qualifier part of a qualified use',
 'C01-F':'as C05-B (callee scope pushed before the arguments are evaluated)',
 'C01-G':'an `@` reference of URI kind that mentions itself in URI position (accepted as a point of recursion, then `not a uri: Recursion`)',
 'C02-F':'one transfer with two ranges of the same status (or both without status) and different media types',
 'C02-G':'as C05-B',
 'C03-F':'two resources with the same path pattern whose path variable differs in a detail',
 'C03-G':'two resources whose paths differ only by a trailing slash, same method, no explicit operationId',
 'C04-F':'as C01-D, reached from text',
 'C04-G':'a property nested directly in a property that mentions the declaration (`let a = \'p \'q a;`)',
 'C05-F':'a rec directly inside a rec, inside a function applied twice',
 'C05-G':'an argument carrying schema-level annotations and an annotated use of the parameter',
 'C06-F':'one operation with the same status under two media types',
 'C06-G':'two unqualified imports whose modules declare the same name, the name used',
 'C07-F':'an infinite kind whose closing equation has on its left a variable seen only nested (`let g = f; let f x = g;`)',
 'C07-G':'an object literal with a bare parameter member in a function that is never applied in its module',
 'C08-F':'a qualified use `m.x` inside a function or rec whose binder is spelled `x`',
 'C08-G':'the same `@name` in two modules, one declaration using the other in its right-hand side',
 'C09-F':'a function with a rec applied from inside two different @ / recursive declarations',
 'C09-G':'a recursive schema reachable only through a header object',
 'C10-F':'a module file name with a blank or a non-ASCII letter, on the real file system',
 'C10-G':'language server: an imported file deleted on disk after a successful load, then any change',
 'C11-F':'a property list ending in a trailing comma',
 'C11-G':'a lexical error directly after a token and before another one',
 'C12-F':'contents with a meta list and no body nested through a meta value (`<headers=<headers=...>>`)',
 'C12-G':'one long statement (wide object or deep nesting of hundreds of levels)',
 'C13-F':'language server: a program whose load fails, then corrected by didChange',
 'C13-G':'a base that cannot be read and an existing target',
 'C14-F':'a configuration file naming one base and `--base` naming another',
 'C14-G':'a base whose components hold links, callbacks or extensions',
 'C15-F':'a published error, then an edit before it that keeps byte offsets but moves UTF-16 columns',
 'C15-G':'a folder that loads but has a diagnostic, then an event on a document outside its module set',
 'C16-F':'as C15-D (one didChange with two ranged changes in document order)',
 'C16-G':'go-to-definition into another module whose text differs before the declaration',
 'C17-F':'as C15-D',
 'C17-G':'find-references with the cursor on the binding identifier of a parameter or rec binder',
 'C18-F':'two modules with unrelated definitions at the same node index, one used in a third module',
 'C18-G':'a rec binder shadowing a parameter of the same name, rename at a use of the inner one',
}
rows=[]
for d in sorted(glob.glob('seeded/*/')):
    n=os.path.basename(d.rstrip('/'))
    m=json.load(open(d+'meta.json'))
    diff=open(d+'patch.diff').read()
    files=sorted(set(re.findall(r'^\+\+\+ b/(\S+)',diff,re.M)))
    det=m.get('detected_by') or {}
    m['needs_to_manifest']=needs.get(n,m.get('needs_to_manifest'))
    json.dump(m,open(d+'meta.json','w'),indent=1)
    sig=(det.get('first_signature') or '')[:70].replace('|','\\|')
    rows.append(f"| {n} | `{', '.join(f.replace('oal-','').replace('/src/','/') for f in files)}` | {needs.get(n,'')} | {(n[:3] + ' quick: `' + sig + '` (' + str(det.get('seconds')) + ' s)') if det.get('detected') else ('not by ' + n[:3] + ' quick')}{' — after strengthening' if m.get('first_missed') else ''}{(' — by ' + m['detected_by_other']) if m.get('detected_by_other') else ''} |")
table='\n'.join(rows)
new=open('tools/design11_body.md').read().replace('@@TABLE@@',table)
marker='\n---------------------------------------------------------------------------------------\n\n## Appendix A.'
if '## 11. As built' in s:
    start=s.index('\n---------------------------------------------------------------------------------------\n\n## 11. As built')
    s=s[:start]+new+s[s.index(marker):]
else:
    i=s.index(marker)
    s=s[:i]+new+s[i:]
open(p,'w').write(s)
print(len(s.splitlines()))
