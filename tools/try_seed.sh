#!/bin/bash
# Usage: tools/try_seed.sh <patch.diff> <Cnn> [quick|thorough]
# Applies a seeded change to /repo's working tree, runs the check, and restores the tree.
set -u
PATCH="$(realpath "$1")"; ID="$2"; TIER="${3:-quick}"
cd /verif
if [ -n "$(git -C /repo status --porcelain --untracked-files=no)" ]; then echo "/repo not clean"; exit 3; fi
git -C /repo apply "$PATCH" || { echo "patch does not apply"; exit 3; }
# The evidence file of a run against a seeded change is not evidence: keep the one that is there.
SAVED="$(mktemp)"; cp "evidence/$ID.json" "$SAVED" 2>/dev/null
trap 'git -C /repo checkout -- . ; git -C /repo clean -fdq -- oal-*/src oal-*/tests 2>/dev/null; cp "$SAVED" "/verif/evidence/$ID.json" 2>/dev/null; rm -f "$SAVED"' EXIT
./check "$ID" "$TIER" > /tmp/try_seed.log 2>&1
RC=$?
grep -E "^(VIOLATION|INCONCLUSIVE|C[0-9]+ )|signature:" /tmp/try_seed.log | head -12
echo "exit=$RC"
exit $RC
