#!/bin/bash
# Usage: tools/verify_seed.sh <Cnn> <A|B>
# Confirms a seeded change independently in a scratch worktree: it applies, the workspace builds,
# the existing tests pass with it, the demonstration fails with it and passes without it.
# On success copies patch + demo + meta.json to /verif/seeded/<Cnn>-<A|B>/.
set -u
ID="$1"; V="$2"
SRC=${SEED_SRC:-/tmp/seed}/$ID/OUT/$V
WT=/tmp/vs/$ID$V
LOG=/tmp/vs/$ID$V.log
mkdir -p /tmp/vs
export CARGO_NET_OFFLINE=true
export CARGO_TARGET_DIR=/tmp/vs/target-$ID$V
rm -rf "$WT"; git -C /repo worktree prune
git -C /repo worktree add --detach "$WT" HEAD > "$LOG" 2>&1 || { echo "$ID$V: cannot create worktree"; exit 1; }
cleanup() { git -C /repo worktree remove --force "$WT" >/dev/null 2>&1; rm -rf "$CARGO_TARGET_DIR"; }
trap cleanup EXIT
cd "$WT"; mkdir -p "$WT/target"
# The demo may build into its own target dir; point it at ours.
run_demo() { ( cd "$SRC" && timeout 1500 bash ./demo.sh "$WT" ) >> "$LOG" 2>&1; }
echo "--- demo without patch" >> "$LOG"
run_demo; RC_CLEAN=$?
git -C "$WT" checkout -- . ; git -C "$WT" clean -fdq -- 'oal-*/tests' 'oal-*/src' 2>/dev/null
if ! git -C "$WT" apply "$SRC/patch.diff" >> "$LOG" 2>&1; then
  if ! git -C "$WT" apply -3 "$SRC/patch.diff" >> "$LOG" 2>&1; then echo "$ID$V: patch does not apply to current HEAD"; exit 1; fi
fi
git -C "$WT" diff > /tmp/vs/$ID$V.patch
echo "--- tests with patch" >> "$LOG"
cargo test --workspace --offline >> "$LOG" 2>&1; RC_TESTS=$?
echo "--- demo with patch" >> "$LOG"
run_demo; RC_PATCHED=$?
echo "$ID$V: demo clean rc=$RC_CLEAN, tests with patch rc=$RC_TESTS, demo with patch rc=$RC_PATCHED"
if [ $RC_CLEAN -eq 0 ] && [ $RC_TESTS -eq 0 ] && [ $RC_PATCHED -ne 0 ]; then
  OUT=/verif/seeded/$ID-$V
  rm -rf "$OUT"; mkdir -p "$OUT/demo"
  cp /tmp/vs/$ID$V.patch "$OUT/patch.diff"
  ( cd "$SRC" && for f in *; do [ "$f" = patch.diff ] || cp -r "$f" "$OUT/demo/"; done )
  rm -rf "$OUT/demo/target"
  python3 - "$ID" "$V" "$OUT" <<'PY'
import json,sys,subprocess,os
pid,v,out=sys.argv[1:4]
readme=open(os.path.join(out,'demo','README.md')).read() if os.path.exists(os.path.join(out,'demo','README.md')) else ''
head=subprocess.run(['git','-C','/repo','rev-parse','--short','HEAD'],capture_output=True,text=True).stdout.strip()
meta={"property":pid,"variant":v,"origin":"fresh sub-agent given only the property text and its own worktree",
 "breaks":pid,"needs_to_manifest":"see demo/README.md",
 "confirmed":{"repo_head":head,"ran":["git apply patch.diff (scratch worktree of /repo HEAD)","cargo test --workspace --offline  -> all tests pass with the change","bash demo/demo.sh <worktree>  -> non-zero with the change","bash demo/demo.sh <worktree>  -> zero without the change"]},
 "detected_by":None}
json.dump(meta,open(os.path.join(out,'meta.json'),'w'),indent=1)
PY
  echo "$ID$V: CONFIRMED -> $OUT"
  exit 0
fi
echo "$ID$V: NOT confirmed (see $LOG)"
exit 1
