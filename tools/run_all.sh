#!/bin/bash
# Usage: tools/run_all.sh [quick|thorough] [seed]   — runs every check, prints one line per check.
TIER="${1:-quick}"; export VERIF_SEED="${2:-1}"
cd "$(dirname "$0")/.."
for i in $(seq -w 1 18); do
  id="C$i"
  s=$(date +%s.%N)
  out=$(./check "$id" "$TIER" 2>&1); rc=$?
  e=$(date +%s.%N)
  printf "%s rc=%d %.1fs  %s\n" "$id" "$rc" "$(echo "$e - $s" | bc)" "$(echo "$out" | grep -E "^$id " | tail -1)"
  echo "$out" | grep -E "^(VIOLATION|INCONCLUSIVE)|signature:" | head -6
done
