#!/bin/bash
# Usage (only inside a `vp run --with-repo` snapshot): tools/relocate_repo.sh <repo-snapshot-dir>
# Points this copy of /verif at a snapshot of /repo, so that a long background run is not disturbed
# by seeded changes being applied to /repo meanwhile. Never used by a registered command.
set -eu
R="$1"; cd "$(dirname "$0")/.."
case "$PWD" in /verif) echo "refusing to relocate /verif itself"; exit 1;; esac
# Only the references to the repository itself (not `target/repo/...`, the build directory).
sed -i "s|--manifest-path /repo/|--manifest-path $R/|g" check setup.sh
sed -i "s|path = \"/repo/|path = \"$R/|g" harness/Cargo.toml
grep -q "\"/repo/" harness/fuzz/Cargo.toml 2>/dev/null && sed -i "s|path = \"/repo/|path = \"$R/|g" harness/fuzz/Cargo.toml
echo "relocated to $R"
