#!/bin/bash
# Usage (only inside a `vp run --with-repo` snapshot): tools/relocate_repo.sh <repo-snapshot-dir>
# Points this copy of /verif at a snapshot of /repo, so that a long background run is not disturbed
# by seeded changes being applied to /repo meanwhile. Never used by a registered command.
set -eu
R="$1"; cd "$(dirname "$0")/.."
case "$PWD" in /verif) echo "refusing to relocate /verif itself"; exit 1;; esac
sed -i "s|/repo/|$R/|g" check setup.sh harness/Cargo.toml
grep -l "/repo/" harness/fuzz/Cargo.toml 2>/dev/null && sed -i "s|/repo/|$R/|g" harness/fuzz/Cargo.toml
echo "relocated to $R"
