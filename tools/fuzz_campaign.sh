#!/bin/bash
# Usage: tools/fuzz_campaign.sh <Cnn> <target> <runs-per-job> <jobs> <max_len>
# Coverage-guided campaign (libFuzzer via cargo-fuzz, nightly) on a scratch corpus seeded with the
# repo corpus; a crashing input is re-checked by the same oracle in the normal (non-fuzz) build
# before it is reported. Exit 0: nothing found; 1: VIOLATION printed; 2: inconclusive.
set -u
ID="$1"; TARGET="$2"; RUNS="$3"; JOBS="$4"; MAXLEN="$5"
HERE="$(cd "$(dirname "$0")/.." && pwd)"
export CARGO_NET_OFFLINE=true OALVERIF_HOME="$HERE" CARGO_TARGET_DIR="$HERE/target/fuzz"
SEED="${VERIF_SEED:-1}"; [ "$SEED" = "0" ] && SEED=1
SCRATCH="$(mktemp -d "${TMPDIR:-/tmp}/oalverif-fuzz-XXXXXX")"
trap '[ -z "${KEEP_FUZZ_SCRATCH:-}" ] && rm -rf "$SCRATCH"' EXIT
mkdir -p "$SCRATCH/corpus" "$SCRATCH/artifacts"
if [ "$TARGET" = "frontend" ]; then cp "$HERE"/corpus/*.oal "$SCRATCH/corpus/" 2>/dev/null; fi
cd "$HERE/harness"
if ! cargo +nightly fuzz build "$TARGET" > "$SCRATCH/build.log" 2>&1; then
  tail -20 "$SCRATCH/build.log"; echo "INCONCLUSIVE property=$ID fuzz target $TARGET does not build"; exit 2
fi
S=$(date +%s)
# cargo-fuzz wants to be started inside the project; with -jobs libFuzzer writes fuzz-<n>.log there.
rm -f fuzz-*.log
cargo +nightly fuzz run "$TARGET" "$SCRATCH/corpus" -- -runs="$RUNS" -seed="$SEED" -max_len="$MAXLEN" -len_control=0 \
    -jobs="$JOBS" -workers="$JOBS" -artifact_prefix="$SCRATCH/artifacts/" -timeout=30 -rss_limit_mb=4096 > "$SCRATCH/run.log" 2>&1
RC=$?
mv fuzz-*.log "$SCRATCH/" 2>/dev/null
E=$(date +%s)
FOUND=0; RCOUT=0
for a in "$SCRATCH"/artifacts/*; do
  [ -f "$a" ] || continue
  out=$("$HERE/target/release/oalverif" fuzz-replay "$TARGET" "$a" 2>&1); rc=$?
  prop=$(echo "$out" | grep -m1 -o "FUZZ-FAILURE property=C[0-9]*" | sed 's/.*=//')
  if [ $rc -ne 0 ] && [ "$prop" = "$ID" ]; then
    mkdir -p "$HERE/replays/$ID"
    dest="$HERE/replays/$ID/fuzz-$TARGET-$(basename "$a")"
    cp "$a" "$dest"
    echo "VIOLATION property=$ID replay=$dest"
    echo "$out" | grep -m1 "FUZZ-FAILURE" | sed 's/^/  /'
    FOUND=$((FOUND+1)); RCOUT=1
  elif [ $rc -ne 0 ] && [ -n "$prop" ]; then
    echo "NOTE: the $TARGET campaign of $ID found a failure of $prop: run ./check $prop thorough"
  else
    echo "NOTE: libFuzzer artifact $(basename "$a") does not reproduce in the normal build (timeout or out of memory inside the fuzzer)"
    [ $RCOUT -eq 0 ] && RCOUT=2
  fi
done
EXECS=$(cat "$SCRATCH"/fuzz-*.log 2>/dev/null | grep -c "^#" || true)
DONE=$(cat "$SCRATCH"/fuzz-*.log 2>/dev/null | grep -o "Done [0-9]* runs" | awk '{s+=$2} END {print s+0}')
python3 - "$HERE/evidence/$ID.json" "$TARGET" "$DONE" "$JOBS" "$FOUND" "$((E-S))" <<'PY'
import json,sys
p,target,done,jobs,found,secs=sys.argv[1:7]
try:
    e=json.load(open(p))
    e['coverage']['libfuzzer']={"target":target,"executions":int(done),"jobs":int(jobs),"failures":int(found),"wall_s":int(secs),"note":"coverage-guided campaign on a scratch corpus; the semantic oracle is inside the target; only approximately reproducible from the seed, the saved input is the reproducible unit"}
    e['violations']=e.get('violations',0)+int(found)
    json.dump(e,open(p,'w'),indent=2)
except Exception as ex:
    print("NOTE: could not record the campaign in the evidence file:",ex)
PY
echo "$ID libFuzzer $TARGET: $DONE executions in $((E-S))s, $FOUND failure(s)"
exit $RCOUT
