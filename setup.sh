#!/bin/bash
# Cold build of the harness and of the oal binaries; offline.
set -eu
cd "$(dirname "$0")"
HERE="$(pwd)"
export CARGO_NET_OFFLINE=true
export CARGO_TARGET_DIR="$HERE/target"
mkdir -p target evidence replays
( cd harness && cargo build --release )
cargo build --release --manifest-path /repo/Cargo.toml -p oal-client --bins \
   --target-dir "$HERE/target/repo" \
   --config 'profile.release.debug-assertions=true' --config 'profile.release.overflow-checks=true'
echo "setup ok"
