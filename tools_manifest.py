#!/usr/bin/env python3
"""Regenerates MANIFEST.json from the table below (kept as code so that it stays consistent)."""
import json, subprocess

CHECKS = {
 # id: (technique, level text, level note, design ref)
 "C01": ("kind-directed program generation + mutation, rejection-sampled to accepted programs; crash/hang oracle on the back end in isolated workers",
         "Exploration: tens of thousands (quick) to millions (thorough) of generated module sets that the real load+compile accepts are evaluated and turned into YAML; a panic, abort, stack overflow or CPU-limit is a violation, a located error value is not. The generators cover the full language incl. multi-module programs, functions, recursion, references and the kind confusions the checker's coarse tags admit. Four root causes are known findings (F1-F4) with narrow signatures; anything else fails the check.",
         "Trusts the in-memory Loader wrapper (it calls the real parse and compile) and the structural labels computed through oal's public syntax API that serve as preconditions of the known findings.",
         "DESIGN.md §4 C01"),
 "C07": ("differential testing of the unifier against a reference Robinson unifier on generated equation systems; metamorphic permutation/renaming of programs; accepted/rejected by construction",
         "Exploration: ~1.3 million unifier runs per quick pass - each generated system (solvable by construction, with a planted occurs violation, or free) must get the reference unifier's verdict and most general solution up to variable renaming, in 5 orders with swapped sides; non-termination and stack overflow are caught by the CPU watchdog and the driver. Programs keep verdict and error kind under statement permutation and consistent renaming; strict-fragment programs are accepted, and eight sorts of injected kind errors are rejected with InvalidType.",
         "Needs hook H1 (re-export of the private inference module). The reference unifier and the kind-error injections are the harness's own; the error-kind comparison relies on the fixed order of compile phases.",
         "DESIGN.md §4 C07"),
 "C10": ("exhaustive small-scope enumeration of import digraphs with sampled decorations + random graphs; call-sequence invariants on a recording Loader",
         "Exploration with an exhaustive core: every import digraph (self loops included) on <= 3 (quick) / <= 4 (thorough) modules, each under 8 decorations (sub-directories, ./ and x/../ spellings, duplicate uses, missing targets, permuted uses, use statements before / between / after the other statements), is loaded through a recording in-memory Loader that wraps the real parse/compile; reachable set, cycles and missing targets are computed independently and the call log must show exactly-once load/parse/compile in dependency order, the right error kind otherwise, and the same document after respelling and reordering. Graphs are decorated with two unqualified imports declaring the same name (known finding F21), file names with blanks / non-ASCII letters, and one case in a hundred goes through the real oal-cli on real files.",
         "Trusts the recording Loader wrapper and URL normalisation as the definition of 'the same file'. When a graph has both a cycle and a missing import either error is accepted.",
         "DESIGN.md §4 C10"),
 "C11": ("generated programs with random trivia, mutants and arbitrary text; tiling / re-lex / leaf-sequence / hull / span-bounds invariants",
         "Exploration: for every generated text the token ranges must tile the text, each token's value must be its source slice and re-lex alone, the tree's leaves must be exactly the non-trivia tokens of the parsed prefix, each node's span the hull of its leaves, and every span on a syntax/compile/eval error or definition must lie in a module on character boundaries. Both directions are checked (nothing missing, nothing invented).",
         "Trusts TokenList's public cursor API as the observation of the token stream, and the harness's own span arithmetic.",
         "DESIGN.md §4 C11"),
 "C12": ("exhaustive short token sequences + random/nested token lists; differential cached vs. uncached parse, calibrated linear work bound",
         "Exploration with an exhaustive core: all token sequences up to length 4 (quick) / 6 (thorough) over a 15-kind alphabet are parsed with and without the memo table from three entry points and the structural dumps compared; beyond that, random sequences, nesting to depth 1000 and generated programs must stay under 64 token reads per token (observed maximum ~21); a mixed-nesting phase draws every level from 22 kinds of level (with and without brackets); the public entry point oal_syntax::parse is bounded by CPU time on the nested text templates; flat inputs of 40 000 - 90 000 tokens must not cost more than 4x the thread CPU time per token of their first tenth (a memo table that degrades with its size does not show in the read counter).",
         "Needs hook H2 (Context::work). The uncached reference parse is only feasible for nesting <= 4 or < 11 tokens; the linear constant is calibrated on the unchanged tree with 3x head-room. The CPU-time comparison is relative (two measurements in one process, best of three each) and additionally needs > 8 us per token (unchanged tree: 1.1 us).",
         "DESIGN.md §4 C12"),
 "C15": ("model-based history testing of the real oal-lsp: generated protocol-valid open/change/close/request histories vs. a fresh server handed the final texts",
         "Exploration: histories of up to 25 operations over a 1-3 file workspace with raw edits at arbitrary UTF-16 ranges (clamped columns, lines beyond the end, end-of-file insertions, CRLF, astral characters) and meaningful edits are played to the real server while the harness keeps its own model of every open document; afterwards the published diagnostics per URI and the answers to definition / references / prepareRename at dozens of positions must equal those of a fresh server given the model's final texts, and the server must have survived every message. Histories can also delete the file of a module that is not open. Next to the differential oracle an absolute one: diagnostics are published exactly when the in-process pipeline finds the final program at fault.",
         "Histories are protocol-valid; disk files do not change; the 1 s idle refresh is not exercised (every comparison is preceded by a request).",
         "DESIGN.md §4 C15"),
 "C16": ("exhaustive small-scope enumeration of texts x offsets x positions against an independent reference conversion, plus random long texts",
         "Exploration with an exhaustive core: every text of <= 5 (quick) / 6 (thorough) units over {a, 2-, 3-, 4-byte char, LF, CRLF}, every boundary offset, every position incl. out-of-range ones and every span is converted by the real functions and by a reference written from the LSP text; 200+ million conversions per quick run. A server door sends texts with syntax errors to the real oal-lsp (also closing an unsaved document over a different file) and requires every published range to select the error's span in the client's text; it also sends two ranged changes in one notification, asks for a definition in another document whose text differs, and for references to a use at column 0.",
         "Needs hook H3 (public wrappers of the pub(crate) functions). Offsets strictly inside a CRLF and columns inside a surrogate pair are outside the domain (the protocol gives them no meaning).",
         "DESIGN.md §4 C16"),
 "C02": ("generated well-typed programs vs. an independent reference semantics over the generator's AST; coinductive document equivalence",
         "Exploration: thousands (quick) to hundreds of thousands (thorough) of strict-fragment programs covering every construct of the language are compiled by oal and evaluated by R-sem - a separate evaluator that never looks a name up, keeps lexical environments keyed by binder id, makes recursion an explicit mu and emits OpenAPI JSON directly; the two documents must be equal modulo key order, serialisation defaults and unfolding of implicit components. Expected evaluation errors and rejections are compared too.",
         "Annotation placement is pinned to the observed flow rules (no offline manual); classes with no faithful output (X1 duplicate path, X2 one status/two header sets, X4 use-site annotations on shared references, X5 duplicate names/methods, X9 ambiguous operationId) are recognised by R-sem and counted as excluded.",
         "DESIGN.md §3, §4 C02"),
 "C08": ("shadowing-heavy generated programs; the generator's binding table vs. definition() of every Variable, plus the reference semantics for the run-time half",
         "Exploration: programs whose names come from a 3-4 name pool so that parameters, rec binders, declarations, qualified and unqualified imports and the built-in constantly shadow each other; after load every Variable's definition() is compared (both directions) with the binder the generator meant; injected unbound uses and duplicate declarations must be reported with the right kind; the value half runs through C02's oracle, which has no name lookup at all.",
         "Trusts the generator's own visibility computation (it is the reference resolver by construction) and identifies definition targets by the span of the binding identifier.",
         "DESIGN.md §4 C08"),
 "C09": ("generated programs with declaration cycles and rec under repeated application; reference SCC verdict, mu-unfolding equivalence, component-count bounds",
         "Exploration: cycle-mode programs (self loops, mutual recursion through schemas, aliases, contents, relations, functions, imports; rec inside functions applied several times; cycles with nothing to cut at) are checked for verdict against an independent SCC analysis, for termination by the CPU watchdog, for absence of aliasing by coinductive comparison with the reference unfolding, and for bounds on the number of emitted hash-* components.",
         "Only bounds (not equality) on the component count are asserted because the statement leaves open whether equal applications are one instantiation; strict-fragment exclusions as for C02.",
         "DESIGN.md §4 C09"),
 "C03": ("generated and mutated accepted programs x generated base documents; independent structural validator over the re-parsed YAML",
         "Exploration: every document the C01 generators can make oal emit (typed, loose, shadowing, mutant programs; one in three merged into a generated base) is re-parsed and walked by R-val: $refs resolve inside the document, path variables match required path parameters exactly, response keys are legal, operationIds are distinct, and the YAML parses back to the same OpenAPI value. Collisions of two synthesised operationIds are the known finding F10; a collision that the synthesis rule does not explain and nobody wrote is a violation of its own. One program in six has a twin resource under the path with / without a trailing slash.",
         "R-val is written from the OpenAPI 3.0 text; `default` is accepted as a Responses key; duplicate ids involving a user-written id are outside the domain and counted.",
         "DESIGN.md §4 C03"),
 "C05": ("metamorphic testing: generated programs x sequences of meaning-preserving rewrites on the generator's AST; document equivalence of original and rewritten sources",
         "Exploration: each accepted strict-fragment program is rewritten by 1-4 tape-chosen steps (parenthesise, name / inline a let, wrap in / abstract out a single-use function, rename binders to fresh or legally shadowing names incl. all locals at once, permute statements, random trivia, move a dependency-closed group into a new qualified or unqualified module) and recompiled; it must stay accepted and emit an R-eq document. No reference semantics is involved.",
         "Rewrite sites for naming/wrapping are restricted to positions that inherit no annotations (elsewhere eager evaluation makes the step observable by the language's own rules); X4 programs (known order dependence F9) are outside the domain and counted.",
         "DESIGN.md §4 C05"),
 "C06": ("process-level and in-process differential: byte equality of the output across fresh processes, repeated compilations and threads",
         "Exploration: generated programs rich in references, rec instantiations, examples and modules are compiled by the real oal-cli 8 (quick) / 24 (thorough) times as fresh processes - each with its own hash seeds - and 6-7 times in one process interleaved with other compilations plus once on a new thread; any byte difference is a violation.",
         "Hash seeds are sampled by starting processes, not enumerated; time is not varied (nothing in the pipeline reads the clock).",
         "DESIGN.md §4 C06"),
 "C13": ("process-level differential between the in-process pipeline, the real oal-cli under generated configurations, the playground entry point and the real oal-lsp",
         "Exploration: source sets accepted or rejected in each phase (lexical, syntax, missing import, import cycle, resolution, kinds, evaluation) are run through the real CLI under options / config file / overriding option / config in a sub-directory, with base absent, valid or malformed and the target pre-existing or not; exit status, target bytes and mtime, stderr location, playground verdict and document, and the language server's diagnostics are compared with the pipeline's verdict and document (also after a detour: the main module opened with a text that fails in one of five phases and changed back, in full or by two ranged changes). One target name in four has a blank or a non-ASCII letter.",
         "The in-process pipeline (same library code, in-memory loader) supplies the reference verdict; a malformed base is not a source error; LSP timeouts are inconclusive.",
         "DESIGN.md §4 C13"),
 "C14": ("generated base documents x accepted programs; frame equality oracle through Builder::with_base and through oal-cli --base",
         "Exploration: bases generated over the OpenAPI object model (servers absent/empty/with variables, security, tags, externalDocs, extensions, every non-schema component map, own paths and schemas) are combined with generated programs; everything but paths and components.schemas must equal the base as the tool reads it, and those two must equal the base-less output, also when the base is a stale copy of the program's own output (same path and schema names, other contents, plus a path and a schema only the base has); one pair in eight also runs through the real CLI, the base named by option, by configuration file or by option over a configuration file naming another base, and once more after the base file was replaced.",
         "`The base` is the document as deserialised by the openapiv3 model used by the tool itself.",
         "DESIGN.md §4 C14"),
 "C04": ("grammar-aware text fuzzing + exhaustive short token sequences, crash/hang oracle over four front ends",
         "Exploration: every token-kind sequence up to length 3 (all 54 kinds) / 5 (reduced alphabet), plus hundreds of thousands of generated texts, mutants and nesting templates are pushed through parse, the playground entry point, the real oal-cli and the real oal-lsp; any panic, abort, stack overflow, CPU-limit or wrong exit status is a violation; one LSP text in three goes through a change / close-without-saving / reopen session; ~9 300 self-reference templates (let a = W1(W2(W3(a))), mutual pairs) are enumerated. It cannot show absence of crashing inputs outside the explored set.",
         "Trusts the OS process model (exit status, signals, RLIMIT_CPU) and that the harness's own text splitter is only used for non-triviality counting. Known-finding signatures are matched narrowly (panic file + message head + structural label).",
         "DESIGN.md §4 C04"),
 "C17": ("generated shadowing-heavy multi-module programs served by the real oal-lsp; every cursor position checked against the generator's binding table",
         "Exploration: for each accepted generated program (names from a 3-4 name pool, qualified and unqualified imports, random trivia with CRLF and astral characters) the real server is asked for definition and references at the start, middle, last character and end of every token and a quarter (quick) or all (thorough) of the other offsets: definitions must be the binder's construct in the binder's module, references exactly the set of uses bound to that binder across modules, and positions outside identifiers must give empty answers; at the binding identifier of a parameter / rec binder whatever is returned must be uses of that binder. A generated program that is not accepted is a violation (the strict fragment is well scoped by construction).",
         "Nothing is asserted at binding sites of parameters / rec binders, at qualifier definitions and on the `.` of a qualified name (the statement is silent there). Questions are asked about files on disk; one case in three first opens a module with another layout, lets the server evaluate it and closes it unsaved.",
         "DESIGN.md §4 C17"),
 "C18": ("generated multi-module programs served by the real oal-lsp; every offered rename applied client-side and recompiled, edit set checked against the binding table",
         "Exploration: at one offset (thorough: every offset) of every identifier token prepareRename is asked and, where a range comes back, rename to a fresh name: the server must answer and survive, the edits must be distinct, sit exactly on the old name and be exactly the binding identifier plus the uses bound to it (qualifier: its definition and every q of q.x), and the edited sources must compile to an R-eq document (component key renamed for @references).",
         "New names are fresh; the binding table is the generator's (the reference resolver by construction).",
         "DESIGN.md §4 C18"),
}

ALL = ["C%02d" % i for i in range(1, 19)]
PENDING_REASON = "check not built yet in this revision of /verif (see DESIGN.md for the plan); no claim is made"

def main():
    commits = subprocess.run(["git", "-C", "/repo", "log", "--format=%H %s"], capture_output=True, text=True).stdout.splitlines()
    hooks = [c.split()[0] for c in commits if " verif-hooks:" in c]
    m = {
      "version": 1,
      "setup_cmd": "./setup.sh",
      "hooks": {
        "guard": "verif-hooks (cargo feature on oal-model, oal-compiler, oal-client; default off)",
        "enable": "the harness crate /verif/harness path-depends on the /repo crates with features = [\"verif-hooks\"]; ./check rebuilds it from /repo's working tree",
        "baseline_off_cmd": "cd /repo && cargo test --workspace --no-fail-fast --offline",
        "source_commits": list(reversed(hooks)),
        "add_only": True,
      },
      "engines": [
        {"name": "oalverif", "path": "harness", "serves_properties": sorted(CHECKS),
         "kind_free_text": "Rust harness: tape-driven generators (proptest supplies the RNG and the tape strategy), deterministic per (VERIF_SEED, case index), sharded over worker processes with per-case CPU watchdog, own tape shrinker that works across process deaths, replay files, known-findings matching, evidence writer"},
      ],
      "checks": [],
      "not_applicable": [],
      "notes": "Exit codes of every command: 0 held on everything explored; 1 with VIOLATION lines; 2 inconclusive (build failure, wall-clock watchdog), never together with a VIOLATION line. VERIF_SEED selects the seed (default 1), VERIF_JOBS the number of worker processes (default: all cores).",
    }
    for pid in ALL:
        if pid in CHECKS:
            tech, text, note, ref = CHECKS[pid]
            m["checks"].append({
              "property_id": pid,
              "quick_cmd": f"./check {pid} quick",
              "thorough_cmd": f"./check {pid} thorough",
              "evidence_file": f"/verif/evidence/{pid}.json",
              "replay_cmd_template": f"./check {pid} --replay {{path}}",
              "engine": "oalverif",
              "level_claimed": {"category": "exploration", "text": text, "design_ref": ref},
              "level_note": note,
              "technique": tech,
            })
        else:
            m["not_applicable"].append({"property_id": pid, "reason": PENDING_REASON})
    if not m["not_applicable"]:
        del m["not_applicable"]
    json.dump(m, open("/verif/MANIFEST.json", "w"), indent=1)
    print("MANIFEST.json:", len(m["checks"]), "checks,", len(m.get("not_applicable", [])), "not claimed")

main()
